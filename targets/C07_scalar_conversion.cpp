// C07 — scalar conversion is exact or refused            vp-link: core
//
// G: (a) data: (source type, target type) over {c,b,y,n,q,i,u,x,t,l,f,d,e} x source value (boundary
//        neighbourhoods of every target range, powers of two +-1, 0, -1, random; floats: subnormals,
//        +-max, +-inf, NaN, rounding midpoints, integers near 2^24/2^53/2^63/2^64) through
//        mpt_data_convert_*, mpt_value_convert and mpt_iterator_consume, each with a destination
//        and with dest == NULL (query mode);
//    (b) text: numerals from a grammar (space, sign, 0x/0/0b prefix, 1..40 digits around every limit
//        and above 2^64, leading zeros, trailing garbage, fractions, exponents, inf/nan, hex floats)
//        through mpt_c[u]int{8,16,32,64}/cchar/cuchar/cint/cuint/clong/culong (base 0,2..36, with and
//        without range), mpt_cfloat/cdouble/cldouble (with and without range), mpt_convert_number and
//        mpt_convert_string for all 13 type ids, each with and without destination.
//    (c) text argument iterator (mpt_iterator_string): lists of generated numerals separated by blank runs; per
//        element a sequence of mpt_value_convert requests (any id, with/without destination, string and
//        character-vector views) and a closing mpt_iterator_consume; every result must be what
//        mpt_convert_string gives for the remaining text in isolation.
// O: return >= 0 (data) / > 0 (text)  =>  the destination holds exactly the reference value in the
//    target type and no byte outside the target width changed; return < 0 (and 0 for text: nothing
//    consumed) => destination untouched; verdict with dest == NULL equals the verdict with dest.
//    Reference: __int128 / long double arithmetic for data; for text an independent parser of the
//    CONSUMED prefix (which must be a complete numeral); floating point per DESIGN sect. 4
//    (correctly rounded, finite stays finite, NaN<->NaN, inf<->inf; libc strto* on the consumed
//    prefix is the rounding reference).
#include "vp.hpp"
#include "mpt_c.hpp"

#include <cfloat>
#include <climits>
#include <cmath>
#include <type_traits>

using namespace vp;
using namespace mpt;

typedef __int128 i128;
typedef unsigned __int128 u128;

// ------------------------------------------------------------------ type table
struct TI {
  char id;
  bool flt;
  int width;  // bytes written by a store of the target type
  bool sgn;
};
enum { Tc, Tb, Ty, Tn, Tq, Ti, Tu, Tx, Tt, Tl, Tf, Td, Te, NT };
static const TI kT[NT] = {
    {'c', false, 1, CHAR_MIN < 0}, {'b', false, 1, true}, {'y', false, 1, false}, {'n', false, 2, true}, {'q', false, 2, false},
    {'i', false, 4, true},         {'u', false, 4, false}, {'x', false, 8, true},  {'t', false, 8, false}, {'l', false, (int)sizeof(long), true},
    {'f', true, 4, true},          {'d', true, 8, true},  {'e', true, (int)sizeof(long double), true},
};
static i128 tlo(const TI &t) { return t.sgn ? -((i128)1 << (8 * t.width - 1)) : 0; }
static i128 thi(const TI &t) { return t.sgn ? ((i128)1 << (8 * t.width - 1)) - 1 : ((i128)1 << (8 * t.width)) - 1; }

static std::string i128str(i128 v) {
  if (v == 0) return "0";
  bool neg = v < 0;
  u128 m = neg ? (u128)0 - (u128)v : (u128)v;
  std::string s;
  while (m) { s.insert(s.begin(), char('0' + (int)(m % 10))); m /= 10; }
  return neg ? "-" + s : s;
}
static std::string ldstr(long double v) {
  char b[80];
  snprintf(b, sizeof b, "%.21Lg (%La)", v, v);
  return b;
}

// ------------------------------------------------------------------ destination with canary
struct Dest {
  enum { Off = 16, Size = 64 };
  alignas(16) uint8_t b[Size];
  uint8_t canary;
  void fill(uint8_t cn) { canary = cn; memset(b, cn, Size); }
  void *p() { return b + Off; }
  bool untouched() const { for (int i = 0; i < Size; i++) if (b[i] != canary) return false; return true; }
  bool outside_intact(int width) const {
    for (int i = 0; i < Size; i++) if ((i < Off || i >= Off + width) && b[i] != canary) return false;
    return true;
  }
  i128 geti(const TI &t) const {
    uint64_t u = 0;
    memcpy(&u, b + Off, t.width);
    if (t.sgn && t.width < 8) { int sh = 64 - 8 * t.width; return (i128)((int64_t)(u << sh) >> sh); }
    return t.sgn ? (i128)(int64_t)u : (i128)u;
  }
  long double getf(const TI &t) const {
    if (t.width == 4) { float f; memcpy(&f, b + Off, 4); return f; }
    if (t.width == 8) { double d; memcpy(&d, b + Off, 8); return d; }
    long double e; memcpy(&e, b + Off, sizeof e); return e;
  }
};

// Run a conversion into a canary-filled destination. A success that leaves every byte equal to the canary either stored
// nothing or stored bytes that happen to equal the pattern: the call is repeated with the complementary pattern, after
// which an untouched destination can only mean that nothing was stored.
template <class F> static int call_canary(Dest &d, uint8_t canary, int min_success, F f) {
  d.fill(canary);
  int r = f(d.p());
  if (r >= min_success && d.untouched()) { d.fill((uint8_t)~canary); r = f(d.p()); }
  return r;
}

// ------------------------------------------------------------------ source value
struct Val {
  bool flt;
  i128 iv;          // integer sources
  long double fv;   // floating sources (exactly the stored value)
};
struct Mem {  // exact-size heap block so that an over-read is seen by ASan
  void *p;
  explicit Mem(size_t n) : p(malloc(n)) {}
  ~Mem() { free(p); }
  Mem(const Mem &) = delete;
};

static void store(const TI &t, const Val &v, void *p) {
  if (!t.flt) { uint64_t u = (uint64_t)(u128)v.iv; memcpy(p, &u, t.width); return; }
  if (t.width == 4) { float f = (float)v.fv; memcpy(p, &f, 4); }
  else if (t.width == 8) { double d = (double)v.fv; memcpy(p, &d, 8); }
  else { memset(p, 0, t.width); long double e = v.fv; memcpy(p, &e, 10); }
}

// reference result of converting v to type t
struct Ref {
  bool possible;   // a value denoting the same number (float target: correctly rounded, finite) exists
  bool overflow;   // finite source would become infinite
  bool nan;
  i128 iv;
  long double fv;
};
static const long double kFltMid = 0x1.ffffffp127L;            // halfway between FLT_MAX and 2^128: rounds to inf
static const long double kDblMid = 0x1.fffffffffffff8p1023L;   // halfway between DBL_MAX and 2^1024
static Ref ref_result(const Val &s, const TI &t) {
  Ref r = {false, false, false, 0, 0};
  if (!t.flt) {
    i128 lo = tlo(t), hi = thi(t);
    if (!s.flt) { r.possible = s.iv >= lo && s.iv <= hi; r.iv = s.iv; }
    else if (std::isfinite(s.fv) && s.fv == truncl(s.fv) && s.fv >= (long double)lo && s.fv <= (long double)hi) { r.possible = true; r.iv = (i128)s.fv; }
    return r;
  }
  long double v = s.flt ? s.fv : (long double)s.iv;  // |iv| < 2^64: exact in the 64 bit significand
  if (std::isnan(v)) { r.possible = true; r.nan = true; return r; }
  if (std::isinf(v)) { r.possible = true; r.fv = v; return r; }
  if (t.width == 4) { if (fabsl(v) >= kFltMid) { r.overflow = true; return r; } r.fv = (float)v; }
  else if (t.width == 8) { if (fabsl(v) >= kDblMid) { r.overflow = true; return r; } r.fv = (double)v; }
  else r.fv = v;
  r.possible = true;
  return r;
}
static bool in_some_range_violation(const Val &s) {  // non-trivial: outside at least one target's range
  if (s.flt) return !std::isfinite(s.fv) || fabsl(s.fv) > FLT_MAX || s.fv != truncl(s.fv) || s.fv < 0 || s.fv > 127;
  return s.iv < 0 || s.iv > 127;
}

// ------------------------------------------------------------------ judging one (with dest, without dest) pair
static std::string tagof(const char *family, const char *kind, char t) { return std::string(family) + ":" + kind + ":" + t; }

static void judge_data(Ctx &c, const char *family, const TI &st, const Val &s, const TI &t, int r1, int r0, const Dest &d) {
  Ref ref = ref_result(s, t);
  std::string sv = s.flt ? ldstr(s.fv) : i128str(s.iv);
  c.logf("  %s '%c'->'%c' value %s: ret %d (dest) / %d (no dest), reference %s", family, st.id, t.id, sv.c_str(), r1, r0,
         !ref.possible ? (ref.overflow ? "not representable (finite value beyond the largest finite target value)" : "not representable")
                       : ref.nan ? "NaN" : t.flt ? ldstr(ref.fv).c_str() : i128str(ref.iv).c_str());
  if ((r1 < 0) != (r0 < 0))
    c.fail(tagof(family, "query-verdict", t.id).c_str(), "%s '%c'->'%c' value %s: returns %d with a destination but %d without", family, st.id, t.id, sv.c_str(), r1, r0);
  if (r1 < 0) {
    if (!d.untouched()) c.fail(tagof(family, "refused-dirty", t.id).c_str(), "%s '%c'->'%c' value %s: refused (%d) but destination bytes changed: %s", family, st.id, t.id, sv.c_str(), r1, hex(d.b, Dest::Size).c_str());
    c.label(ref.possible ? "data:refused-although-representable" : "data:refused-unrepresentable");
    return;
  }
  if (d.untouched())
    c.fail(tagof(family, "success-without-store", t.id).c_str(), "%s '%c'->'%c' value %s: reports success (%d) but stored nothing (destination still holds the canary pattern 0x%02x for both patterns tried)", family, st.id, t.id,
           sv.c_str(), r1, d.canary);
  if (!ref.possible) {
    if (ref.overflow)
      c.fail(tagof(family, "float-overflow", t.id).c_str(), "%s '%c'->'%c': finite value %s accepted (ret %d), destination holds %s", family, st.id, t.id, sv.c_str(), r1, ldstr(d.getf(t)).c_str());
    c.fail(tagof(family, "accepted-unrepresentable", t.id).c_str(), "%s '%c'->'%c': value %s is not representable in the target%s but was accepted (ret %d), destination holds %s", family, st.id, t.id,
           sv.c_str(), t.flt ? "" : (" range [" + i128str(tlo(t)) + "," + i128str(thi(t)) + "]").c_str(), r1, t.flt ? ldstr(d.getf(t)).c_str() : i128str(d.geti(t)).c_str());
  }
  bool same;
  std::string got;
  if (t.flt) { long double g = d.getf(t); same = ref.nan ? std::isnan(g) : g == ref.fv; got = ldstr(g); }
  else { i128 g = d.geti(t); same = g == ref.iv; got = i128str(g); }
  if (!same) c.fail(tagof(family, "wrong-value", t.id).c_str(), "%s '%c'->'%c': value %s accepted (ret %d) but destination holds %s", family, st.id, t.id, sv.c_str(), r1, got.c_str());
  if (!d.outside_intact(t.width))
    c.fail(tagof(family, "canary", t.id).c_str(), "%s '%c'->'%c' value %s: bytes outside the %d byte target changed: %s", family, st.id, t.id, sv.c_str(), t.width, hex(d.b, Dest::Size).c_str());
  c.label("data:converted");
}

// ------------------------------------------------------------------ entry points for data
typedef int (*Conv)(const void *, type_t, void *);
static Conv direct_converter(int sti) {
  switch (sti) {
    case Tc: case Tb: return (Conv)mpt_data_convert_int8;
    case Ty: return (Conv)mpt_data_convert_uint8;
    case Tn: return (Conv)mpt_data_convert_int16;
    case Tq: return (Conv)mpt_data_convert_uint16;
    case Ti: return (Conv)mpt_data_convert_int32;
    case Tu: return (Conv)mpt_data_convert_uint32;
    case Tx: case Tl: return (Conv)mpt_data_convert_int64;
    case Tt: return (Conv)mpt_data_convert_uint64;
    case Tf: return (Conv)mpt_data_convert_float32;
    case Td: return (Conv)mpt_data_convert_float64;
    default: return (Conv)mpt_data_convert_exflt;
  }
}

// minimal iterator in the C layout of the interface. Like the library's argument iterators (mpt_process_vararg, the file
// and value-list iterators of mptplot) it keeps the current element in ONE storage slot: advance() overwrites the slot with
// the following element (the bitwise complement of the first one) and, behind the last element, with a poison pattern.
struct CIter;
struct CIterVptr {
  const value *(*get)(CIter *);
  int (*advance)(CIter *);
  int (*reset)(CIter *);
};
struct CIter {
  const CIterVptr *vptr;
  value *val;
  int pos;          // 0: first element, 1: follower, 2: exhausted
  uint8_t *slot;    // storage the value points to (NULL: value without data address)
  int width;
  uint8_t first[16];
  void init(value *v, void *storage, int w) {
    vptr = 0; val = v; pos = 0; slot = (uint8_t *)storage; width = w;
    if (slot) memcpy(first, slot, w);
  }
};
static const value *it_get(CIter *i) { return i->pos < 2 ? i->val : 0; }
static int it_advance(CIter *i) {
  if (i->pos >= 2) return MPT_ERROR(MissingData);
  i->pos++;
  if (i->slot) for (int k = 0; k < i->width; k++) i->slot[k] = i->pos == 1 ? (uint8_t)~i->first[k] : 0xEE;
  return i->pos < 2 ? 1 : 0;
}
static int it_reset(CIter *i) { i->pos = 0; if (i->slot) memcpy(i->slot, i->first, i->width); return 1; }
static const CIterVptr kIterVptr = {it_get, it_advance, it_reset};

enum { EDirect = 1, EValue = 2, EConsume = 4, ECopy = 8 };

static void data_pair(Ctx &c, int sti, const Val &s, int tti, unsigned entries, uint8_t canary, bool absent = false) {
  const TI &st = kT[sti], &t = kT[tti];
  Mem src(st.width);
  store(st, s, src.p);
  // absent source: a value with a type but no data address stands for zero (every mpt_data_convert_* reads a NULL
  // source as 0, mpt_value_copy zero-fills); the caller passes s == 0
  const void *sp = absent ? 0 : src.p;
  if (absent) c.logf("  (source without data address)");
  Dest d;
  if (entries & EDirect) {
    Conv f = direct_converter(sti);
    int r1 = call_canary(d, canary, 0, [&](void *p) { return f(sp, t.id, p); });
    int r0 = f(sp, t.id, 0);
    judge_data(c, absent ? "data-absent" : "data", st, s, t, r1, r0, d);
    if (r1 >= 0 && r1 != t.width) { c.label("note:returned-size-differs-from-target-size"); c.logf("  note: returned size %d, target type has %d bytes", r1, t.width); }
  }
  CObj<value> v;
  v->_addr = sp;
  v->_type = (type_t)st.id;
  if (entries & EValue) {
    int r1 = call_canary(d, canary, 0, [&](void *p) { return mpt_value_convert(v, t.id, p); });
    int r0 = mpt_value_convert(v, t.id, 0);
    judge_data(c, absent ? "value-absent" : "value", st, s, t, r1, r0, d);
  }
  if (entries & EConsume) {
    CIter it;
    it.init(v, src.p, st.width);
    if (absent) it.slot = 0;
    it.vptr = &kIterVptr;
    int r1 = call_canary(d, canary, 0, [&](void *p) { it_reset(&it); return mpt_iterator_consume(reinterpret_cast<iterator *>(&it), t.id, p); });
    it_reset(&it);
    int r0 = mpt_iterator_consume(reinterpret_cast<iterator *>(&it), t.id, 0);
    it_reset(&it);   // the slot is the source block of the other entry points
    judge_data(c, absent ? "consume-absent" : "consume", st, s, t, r1, r0, d);  // the meaning of a positive return (source type id) is not part of the property
  }
  if ((entries & ECopy) && sti == tti) {
    // mpt_value_copy: same type, "maximum allowed data size" exact / generous / one byte short
    const size_t maxs[3] = {(size_t)t.width, (size_t)(Dest::Size - Dest::Off), (size_t)t.width - 1};
    for (int k = 0; k < 3; k++) {
      size_t mx = maxs[k];
      int r1 = call_canary(d, canary, 0, [&](void *p) { return (int)mpt_value_copy(v, p, mx); });
      int r0 = (int)mpt_value_copy(v, 0, mx);
      c.logf("  mpt_value_copy max %zu", mx);
      if (k == 2 && r1 >= 0)
        c.fail(tagof("copy", "size-limit", t.id).c_str(), "mpt_value_copy of a '%c' value (%d bytes) into %zu bytes reports success (%d)", st.id, t.width, mx, r1);
      judge_data(c, absent ? "copy-absent" : "copy", st, s, t, r1, r0, d);
    }
  }
}

// ------------------------------------------------------------------ source value generators
static i128 fit(const TI &t, i128 v) {  // reduce into the source type (two's complement truncation)
  uint64_t u = (uint64_t)(u128)v;
  if (t.width < 8) u &= ((uint64_t)1 << (8 * t.width)) - 1;
  if (t.sgn) { int sh = 64 - 8 * t.width; return (i128)((int64_t)(u << sh) >> sh); }
  return (i128)u;
}
static const i128 kBound[] = {
    INT8_MIN, INT8_MAX, UINT8_MAX, INT16_MIN, INT16_MAX, UINT16_MAX, INT32_MIN, INT32_MAX, UINT32_MAX,
    (i128)INT64_MIN, (i128)INT64_MAX, (i128)UINT64_MAX, 0, 33, 126, 256 + 'A', 384, 65536 + 'A',
};
static Val gen_int(Ctx &c, const TI &t) {
  Val v = {false, 0, 0};
  i128 x = 0;
  switch (c.weighted({5, 2, 1, 2, 1})) {
    case 0: x = kBound[c.pick(sizeof kBound / sizeof *kBound)] + (i128)c.range(0, 4) - 2; c.label("src:int-boundary"); break;
    case 1: { unsigned k = (unsigned)c.range(0, 64); x = ((i128)1 << k) + (i128)c.range(0, 2) - 1; if (c.flip()) x = -x; c.label("src:int-pow2"); break; }
    case 2: x = (i128)c.range(0, 2) - 1; break;
    case 3: { unsigned k = (unsigned)c.range(1, 64); uint64_t r = c.u64(); if (k < 64) r &= ((uint64_t)1 << k) - 1; x = c.flip() ? -(i128)r : (i128)r; c.label("src:int-random"); break; }
    default: { // aliases of a printable character modulo 2^8 / 2^32
      i128 ch = (i128)c.range(33, 126);
      unsigned sh = c.flip() ? 8 : 32;
      x = ch + ((i128)c.range(1, 255) << sh);
      if (c.flip()) x = -x;
      c.label("src:int-char-alias");
    }
  }
  v.iv = fit(t, x);
  return v;
}
template <typename T> static long double step_ulps(T x, int k) {
  for (; k > 0; k--) x = std::nextafter(x, std::numeric_limits<T>::infinity());
  for (; k < 0; k++) x = std::nextafter(x, -std::numeric_limits<T>::infinity());
  return x;
}
static Val gen_flt(Ctx &c, const TI &t) {
  static const long double special[] = {
      0.0L, 1.0L, 0.1L, FLT_TRUE_MIN, FLT_MIN, FLT_MAX, kFltMid, 0x1p128L, 0x1p-150L, 0x1.8p-150L, DBL_TRUE_MIN, DBL_MIN, DBL_MAX, kDblMid, 0x1p1024L, 0x1p-1075L,
      LDBL_TRUE_MIN, LDBL_MIN, LDBL_MAX, 0x1p24L, 0x1p53L, 0x1p63L, 0x1p64L, 0x1p31L, 0x1p32L, 127.0L, 255.0L, 65535.0L,
  };
  long double x;
  switch (c.weighted({5, 1, 1, 2, 2})) {
    case 0: x = special[c.pick(sizeof special / sizeof *special)]; c.label("src:flt-special"); break;
    case 1: x = std::numeric_limits<long double>::infinity(); c.label("src:flt-inf"); break;
    case 2: x = std::numeric_limits<long double>::quiet_NaN(); c.label("src:flt-nan"); break;
    case 3: { uint64_t m = c.u64(); int e = (int)c.range(0, 400) - 200; if (c.flip()) e *= 5; if (c.chance(32)) e *= 80; x = ldexpl((long double)m, e - 63); c.label("src:flt-random"); break; }
    default: { unsigned k = (unsigned)c.range(0, 64); x = ldexpl(1.0L, k) + (long double)((int)c.range(0, 4) - 2); c.label("src:flt-integer"); }
  }
  int k = (int)c.range(0, 4) - 2;
  if (c.flip()) x = -x;
  Val v = {true, 0, 0};
  if (t.width == 4) v.fv = step_ulps<float>((float)x, k);        // (float) of a too large value is inf: intended
  else if (t.width == 8) v.fv = step_ulps<double>((double)x, k);
  else v.fv = step_ulps<long double>(x, k);
  return v;
}

// ------------------------------------------------------------------ numerals: independent parsers
static bool is_ws(char ch) { return ch == ' ' || (ch >= '\t' && ch <= '\r'); }
static int digit_of(char ch) {
  if (ch >= '0' && ch <= '9') return ch - '0';
  if (ch >= 'a' && ch <= 'z') return ch - 'a' + 10;
  if (ch >= 'A' && ch <= 'Z') return ch - 'A' + 10;
  return 99;
}
struct IntNum {
  bool ok;     // the whole string is ws* sign? numeral for the base
  bool neg;
  bool huge;   // magnitude >= 2^100
  u128 mag;
  bool ws_only;
};
static IntNum parse_int(const char *s, size_t n, int base) {
  IntNum r = {false, false, false, 0, false};
  size_t i = 0;
  while (i < n && is_ws(s[i])) i++;
  if (i == n) { r.ws_only = true; return r; }
  if (s[i] == '+' || s[i] == '-') { r.neg = s[i] == '-'; i++; }
  int radix = base ? base : 10;
  auto dig = [&](size_t k, int rad) { return k < n && digit_of(s[k]) < rad; };
  if ((base == 0 || base == 16) && i + 2 < n + 0 && s[i] == '0' && (s[i + 1] == 'x' || s[i + 1] == 'X') && dig(i + 2, 16)) { radix = 16; i += 2; }
  else if ((base == 0 || base == 2) && i + 2 < n + 0 && s[i] == '0' && (s[i + 1] == 'b' || s[i + 1] == 'B') && dig(i + 2, 2)) { radix = 2; i += 2; }
  else if (base == 0 && i < n && s[i] == '0') radix = 8;
  if (i >= n) return r;
  for (; i < n; i++) {
    int dv = digit_of(s[i]);
    if (dv >= radix) return r;
    if (!r.huge) { r.mag = r.mag * radix + dv; if (r.mag >> 100) r.huge = true; }
  }
  r.ok = true;
  return r;
}

enum FltClass { FNone, FFinite, FInf, FNan };
static bool ieq(const char *s, size_t n, size_t i, const char *w) {
  for (size_t k = 0; w[k]; k++) if (i + k >= n || (s[i + k] | 0x20) != w[k]) return false;
  return true;
}
// the whole string is ws* sign? (inf|infinity|nan[(seq)]|decimal|hex float) ?
static FltClass classify_float(const char *s, size_t n, bool *ws_only) {
  size_t i = 0;
  *ws_only = false;
  while (i < n && is_ws(s[i])) i++;
  if (i == n) { *ws_only = true; return FNone; }
  if (s[i] == '+' || s[i] == '-') i++;
  if (ieq(s, n, i, "infinity")) return i + 8 == n ? FInf : FNone;
  if (ieq(s, n, i, "inf")) return i + 3 == n ? FInf : FNone;
  if (ieq(s, n, i, "nan")) {
    i += 3;
    if (i == n) return FNan;
    if (s[i] != '(') return FNone;
    for (i++; i < n && (digit_of(s[i]) < 36 || s[i] == '_'); i++) {}
    return (i + 1 == n && s[i] == ')') ? FNan : FNone;
  }
  int rad = 10;
  char expc = 'e';
  if (i + 1 < n && s[i] == '0' && (s[i + 1] | 0x20) == 'x' && i + 2 < n && (digit_of(s[i + 2]) < 16 || (s[i + 2] == '.' && i + 3 < n && digit_of(s[i + 3]) < 16))) { rad = 16; expc = 'p'; i += 2; }
  size_t nd = 0;
  while (i < n && digit_of(s[i]) < rad) { i++; nd++; }
  if (i < n && s[i] == '.') { i++; while (i < n && digit_of(s[i]) < rad) { i++; nd++; } }
  if (!nd) return FNone;
  if (i < n && (s[i] | 0x20) == expc) {
    i++;
    if (i < n && (s[i] == '+' || s[i] == '-')) i++;
    size_t ne = 0;
    while (i < n && s[i] >= '0' && s[i] <= '9') { i++; ne++; }
    if (!ne) return FNone;
  }
  return i == n ? FFinite : FNone;
}

static std::string quoted(const std::string &s) {
  std::string o = "\"";
  for (unsigned char ch : s) {
    char b[8];
    if (ch == '\\' || ch == '"') { o += '\\'; o += (char)ch; }
    else if (ch >= 32 && ch < 127) o += (char)ch;
    else { snprintf(b, sizeof b, "\\x%02x", ch); o += b; }
  }
  return o + "\"";
}

// ------------------------------------------------------------------ numeral generators
static void gen_space(Ctx &c, std::string &s) {
  static const char ws[] = " \t\n\v\f\r";
  for (size_t k = c.weighted({6, 2, 1}); k; k--) s += ws[c.pick(6)];
}
static void gen_sign(Ctx &c, std::string &s) {
  switch (c.weighted({6, 1, 4, 1})) {
    case 1: s += '+'; break;
    case 2: s += '-'; break;
    case 3: s += c.choose<const char *>({"+-", "-+", "--", "- "}); break;
    default: break;
  }
}
static void gen_trailer(Ctx &c, std::string &s) {
  switch (c.weighted({8, 1, 1, 1, 1, 1})) {
    case 1: s += ' '; break;
    case 2: s += c.choose<const char *>({"z", "_", ",", "g", "x", "\x80", "\xff", "L", "u"}); break;
    case 3: s += ".5"; break;
    case 4: s += c.choose<const char *>({"e3", "e", "p1", "e+", "E-2"}); break;
    case 5: s += c.choose<const char *>({" 7", "\t-1", ":3", "8", "9"}); break;
    default: break;
  }
}
static std::string render(u128 m, int radix, bool upper) {
  if (!m) return "0";
  std::string s;
  while (m) { int dv = (int)(m % radix); s.insert(s.begin(), dv < 10 ? char('0' + dv) : char((upper ? 'A' : 'a') + dv - 10)); m /= radix; }
  return s;
}
static std::string gen_int_text(Ctx &c, int base) {
  std::string s;
  gen_space(c, s);
  gen_sign(c, s);
  int radix = base ? base : 10;
  if (base == 0) {
    switch (c.weighted({6, 2, 1, 2, 1})) {
      case 1: s += "0x"; radix = 16; break;
      case 2: s += "0X"; radix = 16; break;
      case 3: s += "0"; radix = 8; break;
      case 4: s += "0b"; radix = 2; break;
      default: break;
    }
  } else if (base == 16 && c.flip()) s += c.flip() ? "0x" : "0X";
  else if (base == 2 && c.chance(40)) s += "0b";
  else if (c.chance(8)) { s += "0x"; }
  if (c.chance(40)) s.append(c.range(1, 3), '0');
  bool upper = c.flip();
  static const unsigned lim[] = {7, 8, 15, 16, 31, 32, 63, 64};
  switch (c.weighted({6, 1, 1, 2, 3, 2})) {
    case 0: s += render(((u128)1 << lim[c.pick(8)]) + (u128)c.range(0, 4) - 2, radix, upper); c.label("txt:int-limit"); break;
    case 1: s += render(((u128)1 << c.range(0, 100)) + (u128)c.range(0, 2) - 1, radix, upper); c.label("txt:int-pow2"); break;
    case 2: s += render(c.range(0, 2), radix, upper); break;
    case 3: { unsigned k = (unsigned)c.range(1, 70); u128 r = ((u128)c.u64() << 64) | c.u64(); r &= (((u128)1 << k) - 1); s += render(r, radix, upper); c.label("txt:int-random"); break; }
    case 4: { size_t n = c.range(1, 40); for (size_t i = 0; i < n; i++) { int dv = (int)c.pick(radix); s += dv < 10 ? char('0' + dv) : char((upper ? 'A' : 'a') + dv - 10); } c.label("txt:int-digits"); break; }
    default: { // multiples of 2^64 / 2^32 plus a small rest: the classic wrap aliases
      unsigned sh = c.flip() ? 64 : 32;
      s += render(((u128)c.range(1, 3) << sh) + c.range(0, 300), radix, upper);
      c.label("txt:int-wrap-alias");
    }
  }
  gen_trailer(c, s);
  return s;
}
static std::string gen_flt_text(Ctx &c) {
  static const char *special[] = {
      "3.4028234e38", "3.4028235e38", "3.4028236e38", "3.5e38", "1e39", "340282356779733661637539395458142568448", "340282346638528859811704183484516925440",
      "1.17549435e-38", "1e-45", "7e-46", "1e-46", "1.7976931348623157e308", "1.7976931348623158e308", "1.7976931348623159e308", "1.8e308", "1e309",
      "2.2250738585072014e-308", "4.9e-324", "2.4e-324", "1e-325", "1.18973149535723176502e4932", "1.18973149535723176509e4932", "1.2e4932", "1e4933", "3.6e-4951", "1e-4966",
      "16777217", "9007199254740993", "9223372036854775807", "9223372036854775808.5", "18446744073709551617", "inf", "INF", "Infinity", "infinit", "nan", "NaN", "nan(7)", "nan(",
      "0x1p127", "0x1p128", "0x1.fffffep127", "0x1.ffffffp127", "0x1p-149", "0x1p-150", "0x1p1023", "0x1p1024", "0x1.fffffffffffff8p1023", "0x1p16383", "0x1p16384", "0x.8p1",
      "0x", ".", "e5", ".e5", "1e", "1e+", "1.e2", ".5", "0", "00", "1e99999", "1e-99999",
  };
  std::string s;
  gen_space(c, s);
  gen_sign(c, s);
  switch (c.weighted({4, 4, 1})) {
    case 0: s += special[c.pick(sizeof special / sizeof *special)]; c.label("txt:flt-special"); break;
    case 1: {
      size_t n = c.range(1, 40);
      for (size_t i = 0; i < n; i++) s += char('0' + c.pick(10));
      if (c.flip()) { s += '.'; for (size_t k = c.range(0, 20); k; k--) s += char('0' + c.pick(10)); }
      if (c.chance(160)) {
        static const int ex[] = {0, 38, 45, 308, 324, 4932, 4951};
        int e = c.flip() ? ex[c.pick(7)] + (int)c.range(0, 4) - 2 - (int)(c.flip() ? n : 0) : (int)c.range(0, 5000);
        char b[16];
        snprintf(b, sizeof b, "%c%s%d", c.flip() ? 'e' : 'E', c.flip() ? "-" : (c.flip() ? "+" : ""), e < 0 ? -e : e);
        s += b;
      }
      c.label("txt:flt-decimal");
      break;
    }
    default: {
      s += c.flip() ? "0x" : "0X";
      for (size_t k = c.range(0, 20); k; k--) s += "0123456789abcdefABCDEF"[c.pick(22)];
      if (c.flip()) { s += '.'; for (size_t k = c.range(0, 8); k; k--) s += "0123456789abcdef"[c.pick(16)]; }
      if (c.flip()) { char b[16]; snprintf(b, sizeof b, "p%s%d", c.flip() ? "-" : "", (int)c.range(0, 17000)); s += b; }
      c.label("txt:flt-hex");
    }
  }
  gen_trailer(c, s);
  return s;
}

// ------------------------------------------------------------------ text entry points
struct IntEntry {
  const char *name;
  int width;
  bool sgn;
  int (*call)(void *d, const char *s, int base, const void *rng);
};
#define IE(fn, T) {#fn, (int)sizeof(T), std::is_signed<T>::value, [](void *d, const char *s, int b, const void *r) -> int { return fn((T *)d, s, b, (const T *)r); }}
static const IntEntry kIntEntry[] = {
    IE(mpt_cint8, int8_t),   IE(mpt_cint16, int16_t),   IE(mpt_cint32, int32_t),   IE(mpt_cint64, int64_t),   IE(mpt_cchar, char),           IE(mpt_cint, int),           IE(mpt_clong, long),
    IE(mpt_cuint8, uint8_t), IE(mpt_cuint16, uint16_t), IE(mpt_cuint32, uint32_t), IE(mpt_cuint64, uint64_t), IE(mpt_cuchar, unsigned char), IE(mpt_cuint, unsigned int), IE(mpt_culong, unsigned long),
};
enum { NIntEntry = sizeof kIntEntry / sizeof *kIntEntry };

struct TextCall {
  std::string family;   // failure-class prefix
  std::string what;     // for messages
  TI t;                 // target
  int base;
  bool has_range;
  i128 ilo, ihi;
  long double flo, fhi;
  bool char_mode;       // target 'c' of mpt_convert_number/string: the character itself is the value
  bool ws_success_ok;   // mpt_convert_string reports skipped space as consumed for blank text
};

static void judge_text(Ctx &c, const TextCall &tc, const std::string &text, int r1, int r0, const Dest &d) {
  const TI &t = tc.t;
  const char *fam = tc.family.c_str();
  std::string q = quoted(text);
  c.logf("  %s %s base %d%s: ret %d (dest) / %d (no dest)", tc.what.c_str(), q.c_str(), tc.base, tc.has_range ? " with range" : "", r1, r0);
  int k1 = r1 < 0 ? -1 : r1 > 0, k0 = r0 < 0 ? -1 : r0 > 0;
  if (k1 != k0) c.fail(tagof(fam, "query-verdict", t.id).c_str(), "%s %s: returns %d with a destination but %d without", tc.what.c_str(), q.c_str(), r1, r0);
  if (r1 <= 0) {
    if (!d.untouched()) c.fail(tagof(fam, "refused-dirty", t.id).c_str(), "%s %s: returned %d but destination bytes changed: %s", tc.what.c_str(), q.c_str(), r1, hex(d.b, Dest::Size).c_str());
    c.label(r1 ? "txt:refused" : "txt:empty");
    return;
  }
  if ((size_t)r1 > text.size()) c.fail(tagof(fam, "consumed-length", t.id).c_str(), "%s %s: reports %d consumed characters of %zu", tc.what.c_str(), q.c_str(), r1, text.size());
  std::string pre = text.substr(0, r1);
  std::string pq = quoted(pre);
  if (tc.char_mode) {
    bool lead = true;
    for (int i = 0; i + 1 < r1; i++) lead = lead && is_ws(pre[i]);
    if (!lead || is_ws(pre[r1 - 1])) {
      bool blank = true;
      for (char ch : pre) blank = blank && is_ws(ch);
      if (blank && tc.ws_success_ok && d.untouched()) { c.label("txt:blank-consumed"); return; }
      c.fail(tagof(fam, "bad-prefix", t.id).c_str(), "%s %s: consumed %s is not (space, one character)", tc.what.c_str(), q.c_str(), pq.c_str());
    }
    if (d.untouched()) c.fail(tagof(fam, "success-without-store", t.id).c_str(), "%s %s: reports %d consumed characters but stored nothing", tc.what.c_str(), q.c_str(), r1);
    i128 g = d.geti(t), want = (i128)(char)pre[r1 - 1];
    if (g != want) c.fail(tagof(fam, "wrong-value", t.id).c_str(), "%s %s: consumed %s but destination holds %s", tc.what.c_str(), q.c_str(), pq.c_str(), i128str(g).c_str());
    if (!d.outside_intact(t.width)) c.fail(tagof(fam, "canary", t.id).c_str(), "%s %s: bytes outside the target changed: %s", tc.what.c_str(), q.c_str(), hex(d.b, Dest::Size).c_str());
    c.label("txt:converted-char");
    return;
  }
  if (!t.flt) {
    IntNum n = parse_int(pre.data(), pre.size(), tc.base);
    if (n.ws_only && tc.ws_success_ok && d.untouched()) { c.label("txt:blank-consumed"); return; }
    if (!n.ok) c.fail(tagof(fam, "bad-prefix", t.id).c_str(), "%s %s: consumed %s is not a complete base %d numeral", tc.what.c_str(), q.c_str(), pq.c_str(), tc.base);
    if (d.untouched()) c.fail(tagof(fam, "success-without-store", t.id).c_str(), "%s %s: reports %d consumed characters (%s) but stored nothing", tc.what.c_str(), q.c_str(), r1, pq.c_str());
    bool fits = !n.huge;
    i128 v = 0;
    if (fits) { v = n.neg ? -(i128)n.mag : (i128)n.mag; fits = v >= tlo(t) && v <= thi(t); }
    std::string vs = n.huge ? std::string(n.neg ? "-" : "") + "(more than 2^100)" : i128str(v);
    i128 g = d.geti(t);
    if (!fits)
      c.fail(tagof(fam, "accepted-out-of-range", t.id).c_str(), "%s %s: consumed %s denotes %s, outside [%s,%s], but was accepted (ret %d); destination holds %s", tc.what.c_str(), q.c_str(), pq.c_str(),
             vs.c_str(), i128str(tlo(t)).c_str(), i128str(thi(t)).c_str(), r1, i128str(g).c_str());
    if (g != v) c.fail(tagof(fam, "wrong-value", t.id).c_str(), "%s %s: consumed %s denotes %s but destination holds %s", tc.what.c_str(), q.c_str(), pq.c_str(), vs.c_str(), i128str(g).c_str());
    if (tc.has_range && (v < tc.ilo || v > tc.ihi))
      c.fail(tagof(fam, "range-ignored", t.id).c_str(), "%s %s: value %s accepted outside the requested range [%s,%s]", tc.what.c_str(), q.c_str(), vs.c_str(), i128str(tc.ilo).c_str(), i128str(tc.ihi).c_str());
    if (!d.outside_intact(t.width)) c.fail(tagof(fam, "canary", t.id).c_str(), "%s %s: bytes outside the %d byte target changed: %s", tc.what.c_str(), q.c_str(), t.width, hex(d.b, Dest::Size).c_str());
    if (n.huge || n.mag >> 32) c.nontrivial();
    c.label("txt:converted-int");
    return;
  }
  bool ws_only;
  FltClass fc = classify_float(pre.data(), pre.size(), &ws_only);
  if (ws_only && tc.ws_success_ok && d.untouched()) { c.label("txt:blank-consumed"); return; }
  if (fc == FNone) c.fail(tagof(fam, "bad-prefix", t.id).c_str(), "%s %s: consumed %s is not a complete floating point numeral", tc.what.c_str(), q.c_str(), pq.c_str());
  if (d.untouched()) c.fail(tagof(fam, "success-without-store", t.id).c_str(), "%s %s: reports %d consumed characters (%s) but stored nothing", tc.what.c_str(), q.c_str(), r1, pq.c_str());
  char *end = 0;
  long double want = t.width == 4 ? (long double)strtof(pre.c_str(), &end) : t.width == 8 ? (long double)strtod(pre.c_str(), &end) : strtold(pre.c_str(), &end);
  if (end != pre.c_str() + pre.size()) c.fail(tagof(fam, "bad-prefix", t.id).c_str(), "%s %s: libc does not read all of the consumed %s as one numeral", tc.what.c_str(), q.c_str(), pq.c_str());
  long double g = d.getf(t);
  if (fc == FFinite && !std::isfinite(g))
    c.fail(tagof(fam, "float-overflow", t.id).c_str(), "%s %s: consumed %s denotes a finite number but destination holds %s (ret %d)", tc.what.c_str(), q.c_str(), pq.c_str(), ldstr(g).c_str(), r1);
  bool same = fc == FNan ? std::isnan(g) : g == want;
  if (!same) c.fail(tagof(fam, "wrong-value", t.id).c_str(), "%s %s: consumed %s rounds to %s but destination holds %s", tc.what.c_str(), q.c_str(), pq.c_str(), ldstr(want).c_str(), ldstr(g).c_str());
  if (tc.has_range && fc != FNan && (g < tc.flo || g > tc.fhi))
    c.fail(tagof(fam, "range-ignored", t.id).c_str(), "%s %s: value %s accepted outside the requested range [%s,%s]", tc.what.c_str(), q.c_str(), ldstr(g).c_str(), ldstr(tc.flo).c_str(), ldstr(tc.fhi).c_str());
  if (!d.outside_intact(t.width)) c.fail(tagof(fam, "canary", t.id).c_str(), "%s %s: bytes outside the %d byte target changed: %s", tc.what.c_str(), q.c_str(), t.width, hex(d.b, Dest::Size).c_str());
  if (fc == FFinite && (fabsl(want) > 4294967295.0L || !std::isfinite(want))) c.nontrivial();
  c.label(fc == FFinite ? "txt:converted-float" : "txt:converted-inf-nan");
}

static i128 gen_bound(Ctx &c, const TI &t) {
  i128 lo = tlo(t), hi = thi(t);
  switch (c.weighted({2, 2, 2, 2})) {
    case 0: return lo + (i128)c.range(0, 2);
    case 1: return hi - (i128)c.range(0, 2);
    case 2: return fit(t, (i128)c.range(0, 300) - 130);
    default: return fit(t, (i128)c.u64());
  }
}

static void text_op(Ctx &c, uint8_t canary) {
  unsigned fam = (unsigned)c.weighted({4, 2, 3, 3});
  TextCall tc;
  tc.base = 0;
  tc.has_range = false;
  tc.char_mode = false;
  tc.ws_success_ok = false;
  tc.ilo = tc.ihi = 0;
  tc.flo = tc.fhi = 0;
  Dest d;
  d.fill(canary);
  alignas(16) uint8_t rng[32];
  int r1, r0;
  std::string text;
  // heap copy of exactly strlen+1 bytes: a read behind the terminator is seen by ASan
  auto heap = [](const std::string &s) { char *p = (char *)malloc(s.size() + 1); memcpy(p, s.c_str(), s.size() + 1); return p; };
  if (fam == 0) {
    const IntEntry &e = kIntEntry[c.pick(NIntEntry)];
    tc.t = TI{e.sgn ? (e.width == 1 ? 'b' : e.width == 2 ? 'n' : e.width == 4 ? 'i' : 'x') : (e.width == 1 ? 'y' : e.width == 2 ? 'q' : e.width == 4 ? 'u' : 't'), false, e.width, e.sgn};
    static const int bases[] = {0, 0, 0, 10, 16, 8, 2, 36};
    tc.base = c.chance(40) ? (int)c.range(2, 36) : bases[c.pick(8)];
    tc.family = e.sgn ? "cint" : "cuint";
    tc.what = e.name;
    text = c.weighted({5, 1}) ? gen_flt_text(c) : gen_int_text(c, tc.base);
    if (c.chance(96)) {
      tc.has_range = true;
      tc.ilo = gen_bound(c, tc.t);
      tc.ihi = gen_bound(c, tc.t);
      if (tc.ilo > tc.ihi && c.chance(224)) std::swap(tc.ilo, tc.ihi);
      uint64_t a = (uint64_t)(u128)tc.ilo, b = (uint64_t)(u128)tc.ihi;
      memcpy(rng, &a, e.width);
      memcpy(rng + e.width, &b, e.width);
      c.label("txt:with-range");
    }
    c.label(e.name);
    char *s = heap(text);
    r1 = call_canary(d, canary, 1, [&](void *p) { return e.call(p, s, tc.base, tc.has_range ? rng : 0); });
    r0 = e.call(0, s, tc.base, tc.has_range ? rng : 0);
    free(s);
  } else if (fam == 1) {
    int which = (int)c.pick(3);
    tc.t = kT[Tf + which];
    tc.family = "cfloat";
    tc.what = which == 0 ? "mpt_cfloat" : which == 1 ? "mpt_cdouble" : "mpt_cldouble";
    text = c.weighted({1, 4}) ? gen_flt_text(c) : gen_int_text(c, 0);
    float rf[2];
    double rd[2];
    long double re[2];
    if (c.chance(64)) {
      static const long double b[] = {0, 1, 100, 1e10L, FLT_MAX, DBL_MAX, LDBL_MAX, 1e-40L};
      tc.has_range = true;
      long double lo = -b[c.pick(8)], hi = b[c.pick(8)];
      if (c.chance(32)) lo = -lo;
      rf[0] = (float)lo; rf[1] = (float)hi; rd[0] = (double)lo; rd[1] = (double)hi; re[0] = lo; re[1] = hi;
      tc.flo = which == 0 ? (long double)rf[0] : which == 1 ? (long double)rd[0] : re[0];
      tc.fhi = which == 0 ? (long double)rf[1] : which == 1 ? (long double)rd[1] : re[1];
      c.label("txt:with-range");
    }
    c.label(tc.what.c_str());
    char *s = heap(text);
    if (which == 0) { r1 = call_canary(d, canary, 1, [&](void *p) { return mpt_cfloat((float *)p, s, tc.has_range ? rf : 0); }); r0 = mpt_cfloat(0, s, tc.has_range ? rf : 0); }
    else if (which == 1) { r1 = call_canary(d, canary, 1, [&](void *p) { return mpt_cdouble((double *)p, s, tc.has_range ? rd : 0); }); r0 = mpt_cdouble(0, s, tc.has_range ? rd : 0); }
    else { r1 = call_canary(d, canary, 1, [&](void *p) { return mpt_cldouble((long double *)p, s, tc.has_range ? re : 0); }); r0 = mpt_cldouble(0, s, tc.has_range ? re : 0); }
    free(s);
  } else {
    int ti = (int)c.pick(NT);
    tc.t = kT[ti];
    tc.char_mode = ti == Tc;
    tc.family = fam == 2 ? "number" : "string";
    tc.what = std::string(fam == 2 ? "mpt_convert_number" : "mpt_convert_string") + " to '" + tc.t.id + "'";
    tc.ws_success_ok = fam == 3;
    if (tc.char_mode && c.flip()) { gen_space(c, text); text += (char)c.u8(); if (text.back() == 0) text.back() = 'A'; gen_trailer(c, text); }
    else text = (tc.t.flt ? c.weighted({1, 4}) : c.weighted({5, 1})) ? gen_flt_text(c) : gen_int_text(c, 0);
    c.label(fam == 2 ? "mpt_convert_number" : "mpt_convert_string");
    char *s = heap(text);
    if (fam == 2) { r1 = call_canary(d, canary, 1, [&](void *p) { return mpt_convert_number(s, tc.t.id, p); }); r0 = mpt_convert_number(s, tc.t.id, 0); }
    else { r1 = call_canary(d, canary, 1, [&](void *p) { return mpt_convert_string(s, (type_t)tc.t.id, p); }); r0 = mpt_convert_string(s, (type_t)tc.t.id, 0); }
    free(s);
  }
  judge_text(c, tc, text, r1, r0, d);
}

// ------------------------------------------------------------------ text argument iterator (mpt_iterator_string)
// The element value of this iterator is a convertable: every mpt_value_convert() on it and every
// mpt_iterator_consume() parses the remaining text again. Oracle: a conversion of the current element
// gives what mpt_convert_string() gives for the same remaining text in isolation (that function is
// checked against the independent parsers by the text layer), whatever was asked of the element before
// (other target types, queries without destination, string / character-vector views); after an element
// was consumed as a whole word the next element starts behind the blank run.
struct MetaVptrC {
  int (*convert)(void *, uintptr_t, void *);
  void (*unref)(void *);
  uintptr_t (*addref)(void *);
  void *(*clone)(const void *);
};
struct IterVptrC {
  const value *(*get)(void *);
  int (*advance)(void *);
  int (*reset)(void *);
};
struct TextIter {
  metatype *mt;
  iterator *it;
  char *heap;
  TextIter() : mt(0), it(0), heap(0) {}
  ~TextIter() { if (mt) (*reinterpret_cast<const MetaVptrC *const *>(mt))->unref(mt); free(heap); }
  const value *get() { return (*reinterpret_cast<const IterVptrC *const *>(it))->get(it); }
};

static std::string gen_word(Ctx &c) {
  std::string w;
  switch (c.weighted({3, 3, 2})) {
    case 0: w = gen_int_text(c, 0); break;
    case 1: w = gen_flt_text(c); break;
    default: { // plain short numbers: long element lists
      static const char *plain[] = {"0", "1", "7", "42", "-3", "250.75", "1.5e3", "0x1f", "017", "1e2", "-0.5", ".25", "255", "256", "65536", "3e-2", "+8", "1e400", "99999999999"};
      w = plain[c.pick(sizeof plain / sizeof *plain)];
    }
  }
  std::string o;
  for (char ch : w) if (!is_ws(ch) && ch) o += ch;
  return o.empty() ? "0" : o;
}
static void gen_blanks(Ctx &c, std::string &s, size_t lo, size_t hi) {
  static const char ws[] = "  \t\n";
  for (size_t k = c.range(lo, hi); k; k--) s += ws[c.pick(4)];
}

// one conversion request to the current element; returns the consumed length of the isolated conversion
static int iter_request(Ctx &c, TextIter &ti, const std::string &rest, const TI &t, bool consume, bool with_dest, uint8_t canary, bool *blank_out, int *ret_out) {
  bool blank = true;
  for (char ch : rest) blank = blank && is_ws(ch);
  *blank_out = blank;
  // isolated reference on a heap copy of the remaining text
  char *copy = (char *)malloc(rest.size() + 1);
  memcpy(copy, rest.c_str(), rest.size() + 1);
  Dest di;
  int ri = call_canary(di, canary, 1, [&](void *p) { return mpt_convert_string(copy, (type_t)t.id, p); });
  free(copy);
  canary = di.canary;   // a pattern the isolated result differs from (if it stored anything at all)
  Dest d;
  d.fill(canary);
  int r;
  const char *what = consume ? "mpt_iterator_consume" : "mpt_value_convert";
  if (consume) r = mpt_iterator_consume(ti.it, t.id, with_dest ? d.p() : 0);
  else {
    const value *v = ti.get();
    if (!v) { *ret_out = MPT_ERROR(MissingData); c.logf("  value() is NULL"); return ri; }
    r = mpt_value_convert(v, t.id, with_dest ? d.p() : 0);
  }
  *ret_out = r;
  std::string q = quoted(rest);
  c.logf("  %s(element, '%c', %s) on remaining text %s: ret %d; isolated mpt_convert_string: ret %d", what, t.id, with_dest ? "dest" : "no dest", q.c_str(), r, ri);
  if (blank) {
    // no characters that denote a number: refusal or "nothing there", but never a value
    if (!d.untouched())
      c.fail("iter:blank-element-value", "%s(element, '%c') on blank remaining text %s returns %d and changes the destination: %s", what, t.id, q.c_str(), r, hex(d.b, Dest::Size).c_str());
    c.label("iter:blank-element");
    return ri;
  }
  if ((r < 0) != (ri < 0))
    c.fail("iter:verdict", "%s(element, '%c', %s) on remaining text %s returns %d, the same text converted in isolation returns %d", what, t.id, with_dest ? "dest" : "no dest", q.c_str(), r, ri);
  if (r < 0) {
    if (!d.untouched()) c.fail("iter:refused-dirty", "%s(element, '%c') on %s: refused (%d) but destination bytes changed: %s", what, t.id, q.c_str(), r, hex(d.b, Dest::Size).c_str());
    c.label("iter:refused");
    return ri;
  }
  if (!with_dest) {
    if (!d.untouched()) c.fail("iter:canary", "%s(element, '%c', no dest) on %s changed the unrelated buffer", what, t.id, q.c_str());
    c.label("iter:query");
    return ri;
  }
  if (d.untouched())
    c.fail("iter:success-without-store", "%s(element, '%c') on remaining text %s reports success (%d) but stored nothing (isolated conversion: %d characters, %s)", what, t.id, q.c_str(), r, ri,
           di.untouched() ? "stored nothing either" : "stored a value");
  int cmpw = (t.flt && t.width == 16) ? 10 : t.width;
  if (memcmp(d.b + Dest::Off, di.b + Dest::Off, cmpw)) {
    std::string got = t.flt ? ldstr(d.getf(t)) : i128str(d.geti(t)), want = t.flt ? ldstr(di.getf(t)) : i128str(di.geti(t));
    c.fail("iter:wrong-value", "%s(element, '%c') on remaining text %s delivers %s, the same text converted in isolation gives %s (consuming %d characters)", what, t.id, q.c_str(),
           got.c_str(), want.c_str(), ri);
  }
  if (!d.outside_intact(t.width)) c.fail("iter:canary", "%s(element, '%c') on %s: bytes outside the %d byte target changed: %s", what, t.id, q.c_str(), t.width, hex(d.b, Dest::Size).c_str());
  c.label("iter:converted");
  return ri;
}

static void iterator_case(Ctx &c, uint8_t canary) {
  std::string text;
  size_t nwords = c.weighted({1, 3, 4, 4, 3, 2});
  if (c.chance(64)) gen_blanks(c, text, 1, 2);
  for (size_t k = 0; k < nwords; k++) {
    if (k) gen_blanks(c, text, 1, 3);
    text += gen_word(c);
  }
  if (c.chance(64)) gen_blanks(c, text, 1, 3);
  TextIter ti;
  ti.heap = (char *)malloc(text.size() + 1);
  memcpy(ti.heap, text.c_str(), text.size() + 1);
  c.logf("mpt_iterator_string(%s)", quoted(text).c_str());
  ti.mt = mpt_iterator_string(ti.heap, 0);
  VP_CHECK(c, ti.mt, "iter:create", "mpt_iterator_string returned NULL");
  int rc = (*reinterpret_cast<const MetaVptrC *const *>(ti.mt))->convert(ti.mt, TypeIteratorPtr, &ti.it);
  VP_CHECK(c, rc >= 0 && ti.it, "iter:create", "no iterator interface (%d)", rc);
  c.label("iter:case");
  size_t pos = 0;
  for (size_t element = 0; element < 12; element++) {
    std::string rest = text.substr(pos);
    c.logf(" element %zu at offset %zu", element, pos);
    int lasttype = -1;
    bool reconverted = false, blank = false;
    int r = 0;
    for (size_t k = c.weighted({2, 3, 2, 1}); k; k--) {
      switch (c.weighted({5, 4, 1, 1})) {
        case 0: case 1: {
          int tt = (int)c.pick(NT);
          iter_request(c, ti, rest, kT[tt], false, c.flip(), canary, &blank, &r);
          if (lasttype >= 0 && lasttype != tt) reconverted = true;
          lasttype = tt;
          break;
        }
        case 2: { // string view of the remaining text (drops the pending element end)
          const value *v = ti.get();
          const char *sv = 0;
          int rs = v ? mpt_value_convert(v, 's', &sv) : -1;
          c.logf("  mpt_value_convert(element, 's') = %d", rs);
          c.label("iter:string-view");
          break;
        }
        default: { // character vector view of the current word
          const value *v = ti.get();
          struct iovec vec = {0, 0};
          int rs = v ? mpt_value_convert(v, MPT_type_toVector('c'), &vec) : -1;
          c.logf("  mpt_value_convert(element, vector of char) = %d, %zu bytes", rs, vec.iov_len);
          if (rs >= 0 && vec.iov_len > rest.size())
            c.fail("iter:vector-length", "character vector view of the current word has %zu bytes, the remaining text %s has %zu", vec.iov_len, quoted(rest).c_str(), rest.size());
          c.label("iter:vector-view");
        }
      }
    }
    int tt = c.flip() ? (int)c.pick(NT) : Tf + (int)c.pick(3);   // floating targets read most notations as a whole word
    int len = iter_request(c, ti, rest, kT[tt], true, c.chance(192), canary, &blank, &r);
    if (lasttype >= 0 && lasttype != tt) reconverted = true;
    if (reconverted) { c.nontrivial(); c.label("iter:element-converted-to-several-types"); }
    if (blank || rest.empty()) break;      // nothing left that denotes a number
    if (r < 0) { if (!c.more()) break; continue; }   // refused: the element stays current
    // extent of the word at the start of the remaining text
    size_t b = 0;
    while (b < rest.size() && is_ws(rest[b])) b++;
    size_t e = b;
    while (e < rest.size() && !is_ws(rest[e])) e++;
    if ((size_t)len >= rest.size()) break;                                     // consumed up to the end of the text
    if ((size_t)len != e) { c.label("iter:partial-word-consumed"); break; }    // element end inside a word: position of the next element is not specified
    pos += e + 1;                                                              // one separating blank belongs to the consumed element
    c.label("iter:advanced");
  }
}

// ------------------------------------------------------------------ vararg argument iterator (mpt_process_vararg)
// The iterator behind mpt_process_vararg() / mpt_object_set(obj, name, "dd", ...) keeps the current argument in one
// internal buffer that advance() reloads. mpt_iterator_consume() on it must deliver element k's own number for same-type
// and for converting requests. The argument list is built by hand in the overflow area of a System V x86-64 va_list
// (all register slots marked used), so any format string can be paired with matching arguments.
static bool ref_is_pattern(const Ref &r, const TI &t, uint8_t pat) {  // would the stored reference value consist of `pat` bytes only?
  if (!r.possible || r.nan) return false;
  uint8_t b[16];
  int n = t.width;
  if (!t.flt) { uint64_t u = (uint64_t)(u128)r.iv; memcpy(b, &u, n); }
  else if (t.width == 4) { float f = (float)r.fv; memcpy(b, &f, 4); }
  else if (t.width == 8) { double d = (double)r.fv; memcpy(b, &d, 8); }
  else { memcpy(b, &r.fv, 10); n = 10; }
  for (int i = 0; i < n; i++) if (b[i] != pat) return false;
  return true;
}
#if defined(__x86_64__) && defined(__linux__)
#define C07_HAVE_VARARG 1
struct VaElem { int ti; Val v; };
struct VaRun {
  Ctx *c;
  std::vector<VaElem> *el;
  std::vector<uint8_t> *plan;   // per element: target type index, flags (bit0: with destination)
  uint8_t canary;
  bool called, failed;
  Fail fail;
};
static void va_drive(VaRun &x, iterator *it) {
  Ctx &c = *x.c;
  const CIterVptr *vp = *reinterpret_cast<const CIterVptr *const *>(it);
  for (size_t k = 0; k < x.el->size(); k++) {
    const VaElem &e = (*x.el)[k];
    const TI &st = kT[e.ti], &t = kT[(*x.plan)[2 * k]];
    bool with_dest = (*x.plan)[2 * k + 1] & 1;
    Ref ref = ref_result(e.v, t);
    uint8_t cn = ref_is_pattern(ref, t, x.canary) ? (uint8_t)~x.canary : x.canary;
    Dest d;
    d.fill(cn);
    int r = mpt_iterator_consume(it, t.id, with_dest ? d.p() : 0);
    c.logf(" argument %zu ('%c'): mpt_iterator_consume('%c', %s) = %d", k, st.id, t.id, with_dest ? "dest" : "no dest", r);
    if (with_dest) judge_data(c, "vararg", st, e.v, t, r, r, d);
    else {
      if (r >= 0 && !ref.possible)
        c.fail(tagof("vararg", "accepted-unrepresentable", t.id).c_str(), "vararg '%c'->'%c': query accepts argument %zu although its value is not representable in the target", st.id, t.id, k);
      if (!d.untouched()) c.fail(tagof("vararg", "canary", t.id).c_str(), "vararg '%c'->'%c': query changed an unrelated buffer", st.id, t.id);
    }
    if (st.id == t.id) c.label("vararg:same-type");
    if (r < 0) {  // refused: the argument stays current, step over it
      int a = vp->advance(reinterpret_cast<CIter *>(it));
      c.logf("  advance() = %d", a);
      c.label("vararg:refused");
    } else c.label("vararg:consumed");
  }
}
static int va_proc(void *ptr, iterator *it) {
  VaRun *x = (VaRun *)ptr;
  x->called = true;
  try { va_drive(*x, it); }   // no exception may cross the library frame of mpt_process_vararg
  catch (const Fail &f) { x->failed = true; x->fail = f; }
  return 0;
}
static void vararg_case(Ctx &c, uint8_t canary) {
  std::vector<VaElem> el;
  std::vector<uint8_t> plan;
  uint8_t mode = c.u8();
  size_t n = mode == 0xff ? 2 : 1 + c.weighted({2, 4, 3, 2});
  for (size_t k = 0; k < n; k++) {
    VaElem e;
    e.ti = (int)c.pick(NT);
    const TI &st = kT[e.ti];
    if (mode == 0xff) { e.v.flt = st.flt; e.v.iv = 65 + (i128)k; e.v.fv = 65 + (long double)k; }
    else e.v = st.flt ? gen_flt(c, st) : gen_int(c, st);
    if (e.ti == Tf) e.v.fv = (long double)(float)e.v.fv;
    else if (e.ti == Td) e.v.fv = (long double)(double)e.v.fv;
    el.push_back(e);
    int tt = mode == 0xff ? e.ti : (c.flip() ? e.ti : (int)c.pick(NT));
    plan.push_back((uint8_t)tt);
    plan.push_back(mode == 0xff ? 1 : (c.chance(224) ? 1 : 0));
    if (in_some_range_violation(e.v)) c.nontrivial();
  }
  // argument area: what the default argument promotions put on the stack
  alignas(16) uint8_t area[16 * 6];
  memset(area, 0, sizeof area);
  size_t off = 0;
  std::string fmt;
  for (const VaElem &e : el) {
    const TI &st = kT[e.ti];
    fmt += st.id;
    if (!st.flt) { int64_t w = (int64_t)e.v.iv; uint64_t u = (uint64_t)(u128)e.v.iv; if (st.sgn) memcpy(area + off, &w, 8); else memcpy(area + off, &u, 8); off += 8; }
    else if (e.ti == Te) { off = (off + 15) & ~(size_t)15; long double v = e.v.fv; memcpy(area + off, &v, 10); off += 16; }
    else { double v = (double)e.v.fv; memcpy(area + off, &v, 8); off += 8; }
  }
  c.logf("mpt_process_vararg(\"%s\", ...)", fmt.c_str());
  for (size_t k = 0; k < el.size(); k++) c.logf(" argument %zu '%c' = %s", k, kT[el[k].ti].id, el[k].v.flt ? ldstr(el[k].v.fv).c_str() : i128str(el[k].v.iv).c_str());
  c.label("vararg:case");
  va_list ap;
  ap[0].gp_offset = 48;    // no general purpose register slot left
  ap[0].fp_offset = 176;   // no floating point register slot left
  ap[0].overflow_arg_area = area;
  ap[0].reg_save_area = 0;
  VaRun x = {&c, &el, &plan, canary, false, false, Fail()};
  int r = mpt_process_vararg(fmt.c_str(), ap, va_proc, &x);
  if (x.failed) throw x.fail;
  c.logf("mpt_process_vararg = %d%s", r, x.called ? "" : " (handler not called)");
  if (x.called && n >= 2) c.nontrivial();
}
#else
static void vararg_case(Ctx &c, uint8_t) { c.label("vararg:unsupported-platform"); }
#endif

// ------------------------------------------------------------------ target type ids beyond the scalar ids
// Every entry point that takes a target type id gets ids that are NOT one of the 13 scalar ids but look like one in
// their low byte (or low 32 bits): the meta pointer range 0x100..0x7ff, the static and registered value types
// 0x800..0xfff (mpt_type_add), interface and dynamic ids 0x80..0xff, and private ids (types.h: any fixed value above
// 0xfff, typically the address of a global object). None of them has a documented conversion from a number or a
// numeral, so the only correct answer is a refusal that leaves the destination alone.
alignas(256) static char g_private_ids[256];
static std::vector<uintptr_t> g_registered;
static void register_types() {   // process-wide, done once before the first case (Target::reset)
  static bool done = false;
  if (done) return;
  done = true;
  static const type_traits tr(4);
  for (int k = 0; k < 0x80; k++) { int id = mpt_type_add(&tr); if (id > 0) g_registered.push_back((uintptr_t)id); }
  for (int k = 0; k < 4; k++) { int id = mpt_type_basic_add(4); if (id > 0) g_registered.push_back((uintptr_t)id); }
}
static const std::vector<uintptr_t> &foreign_ids() {
  static std::vector<uintptr_t> all;
  if (!all.empty()) return all;
  static const uintptr_t bases[] = {0x100, 0x300, 0x700, 0x800, 0x900, 0xa00, 0xf00, 0x1000, 0x10000, 0x7f000000, (uintptr_t)1 << 32, (uintptr_t)0xffffffff << 32, (uintptr_t)g_private_ids};
  std::string lows = "cbynqiuxtlfde";
  for (char ch : std::string("cbynqiuxtfde")) lows += (char)(ch - 0x20);   // the vector codes of the scalars
  lows += "sk@";
  for (uintptr_t b : bases) for (char ch : lows) all.push_back(b | (uint8_t)ch);
  for (uintptr_t id = 0x80; id <= 0x8a; id++) all.push_back(id);      // interface ids
  for (uintptr_t id : {0x90, 0xbf, 0xc0, 0xe9, 0xff, 0x100, 0x7ff, 0x800, 0x801, 0x802, 0x803, 0x8ff, 0x900, 0xfff, 0x1000}) all.push_back(id);
  for (uintptr_t id : g_registered) all.push_back(id);
  all.push_back((uintptr_t)&g_registered);
  all.push_back((uintptr_t)foreign_ids);
  return all;
}
static void foreign_refused(Ctx &c, const char *family, const char *what, uintptr_t id, int r, int r0, bool text, const Dest &d) {
  c.logf("  %s to type id 0x%lx: ret %d (dest) / %d (no dest)", what, (unsigned long)id, r, r0);
  bool ok = text ? (r <= 0 && r0 <= 0) : (r < 0 && r0 < 0);
  if (!ok || !d.untouched())
    c.fail((std::string("foreign:") + family).c_str(), "%s accepts the target type id 0x%lx (low byte '%c'), which is none of the scalar ids: ret %d with destination, %d without; destination %s", what,
           (unsigned long)id, (id & 0xff) >= 32 && (id & 0xff) < 127 ? (char)(id & 0xff) : '?', r, r0, d.untouched() ? "untouched" : hex(d.b, Dest::Size).c_str());
}
static void foreign_case(Ctx &c, uint8_t canary) {
  const std::vector<uintptr_t> &ids = foreign_ids();
  uint8_t mode = c.u8();
  uintptr_t id;
  if (mode == 0xff || c.weighted({3, 1}) == 0) id = ids[c.u16() % ids.size()];
  else { id = (uintptr_t)c.u64(); if (c.flip()) id &= 0xffffffff; if (c.flip()) id = (id & ~(uintptr_t)0xff) | (uint8_t)"cbynqiuxtlfde"[c.pick(13)]; if (id < 0x100) id |= 0x100; }
  int sti = (int)c.pick(NT);
  const TI &st = kT[sti];
  Val s = {st.flt, 65, 65};
  if (mode != 0xff) s = st.flt ? gen_flt(c, st) : gen_int(c, st);
  c.logf("target type id 0x%lx, source '%c' value %s", (unsigned long)id, st.id, s.flt ? ldstr(s.fv).c_str() : i128str(s.iv).c_str());
  c.label("foreign:case");
  if (id >= 0x900 && id <= 0xfff) c.label("foreign:registered-range");
  else if (id > 0xfff) c.label("foreign:private-id");
  Mem src(st.width);
  store(st, s, src.p);
  Dest d;
  d.fill(canary);
  Conv f = direct_converter(sti);
  foreign_refused(c, "data", "mpt_data_convert_*", id, f(src.p, id, d.p()), f(src.p, id, 0), false, d);
  CObj<value> v;
  v->_addr = src.p;
  v->_type = (type_t)st.id;
  foreign_refused(c, "value", "mpt_value_convert", id, mpt_value_convert(v, id, d.p()), mpt_value_convert(v, id, 0), false, d);
  CIter it;
  it.init(v, src.p, st.width);
  it.vptr = &kIterVptr;
  int r1 = mpt_iterator_consume(reinterpret_cast<iterator *>(&it), id, d.p());
  it_reset(&it);
  int r0 = mpt_iterator_consume(reinterpret_cast<iterator *>(&it), id, 0);
  it_reset(&it);
  foreign_refused(c, "consume", "mpt_iterator_consume", id, r1, r0, false, d);
  // numerals
  static const char *plain[] = {"65", "1", "0x41", "-3", "1.5e3", "A", "250.75 7"};
  std::string text = mode == 0xff ? "65" : (c.flip() ? std::string(plain[c.pick(7)]) : gen_word(c));
  char *txt = (char *)malloc(text.size() + 1);
  memcpy(txt, text.c_str(), text.size() + 1);
  struct Free { char *p; ~Free() { free(p); } } fr = {txt};
  c.logf(" numeral %s", quoted(text).c_str());
  if (id <= 0x7fffffff) foreign_refused(c, "number", "mpt_convert_number", id, mpt_convert_number(txt, (int)id, d.p()), mpt_convert_number(txt, (int)id, 0), true, d);
  foreign_refused(c, "string", "mpt_convert_string", id, mpt_convert_string(txt, id, d.p()), mpt_convert_string(txt, id, 0), true, d);
  TextIter ti;
  ti.heap = (char *)malloc(text.size() + 1);
  memcpy(ti.heap, text.c_str(), text.size() + 1);
  ti.mt = mpt_iterator_string(ti.heap, 0);
  if (ti.mt && (*reinterpret_cast<const MetaVptrC *const *>(ti.mt))->convert(ti.mt, TypeIteratorPtr, &ti.it) >= 0 && ti.it) {
    const value *ev = ti.get();
    // the element is a convertable pointer: a request for its own type id is the documented identity copy, not a number conversion
    if (ev && ev->_type != id) foreign_refused(c, "iter", "mpt_value_convert(text iterator element)", id, mpt_value_convert(ev, id, d.p()), mpt_value_convert(ev, id, 0), false, d);
    foreign_refused(c, "iter", "mpt_iterator_consume(text iterator)", id, mpt_iterator_consume(ti.it, id, d.p()), mpt_iterator_consume(ti.it, id, 0), false, d);
  }
  c.nontrivial();
}

// ------------------------------------------------------------------ numerals next to a rounding midpoint
// DESIGN sect. 4 demands the correctly rounded value for floating targets. A converter that parses into a wider type
// and narrows afterwards (double rounding) is one ulp off for numerals that lie within ~1e-16 relative of the midpoint
// between two adjacent target values, but not on it. Such numerals are built constructively: significand M (24 / 53
// bits) and exponent e give the target value f = M * 2^e; the midpoint to the next value is (2M+1) * 2^(e-1), spelled
// exactly in hex or decimal and then moved by a digit far beyond double / long double precision. The expected result is
// known by construction (M+1 for "above", M for "below"), no libc parser is involved.
static std::string u128dec(u128 v) { std::string o; do { o.insert(o.begin(), char('0' + (int)(v % 10))); v /= 10; } while (v); return o; }
static void midpoint_case(Ctx &c, uint8_t canary) {
  uint8_t mode = c.u8();
  bool dbl, above, hexsp, neg;
  uint64_t M;
  int e;
  unsigned entry;
  if (mode == 0xff) {  // enumerated
    unsigned idx = c.u16();
    entry = idx % 3; idx /= 3;
    neg = idx & 1; idx >>= 1;
    hexsp = idx & 1; idx >>= 1;
    above = idx & 1; idx >>= 1;
    e = (idx & 1) ? -23 : 0; idx >>= 1;
    dbl = false;
    M = ((uint64_t)1 << 23) + (idx & 7);
  } else {
    dbl = c.chance(64);
    above = c.flip();
    neg = c.chance(64);
    entry = (unsigned)c.pick(3);
    unsigned bits = dbl ? 53 : 24;
    M = ((uint64_t)1 << (bits - 1)) | (c.u64() & (((uint64_t)1 << (bits - 1)) - 1));
    if (c.chance(64)) M = ((uint64_t)1 << bits) - 1;   // midpoint to the next power of two
    e = (int)c.range(0, 50) - 40;                      // float values 2^-17 .. 2^34: normal, decimal expansion fits 128 bit
    hexsp = dbl || c.flip();                           // decimal spelling for float targets only
  }
  u128 N = (u128)2 * M + 1;   // midpoint = N * 2^(e-1)
  int e2 = e - 1;
  unsigned extra = (unsigned)(mode == 0xff ? 24 : c.range(18, 30));   // digits between the midpoint and the deviation
  std::string num;
  if (hexsp) {
    char b[64];
    u128 I = above ? N : N - 1;
    snprintf(b, sizeof b, "0x%llx.", (unsigned long long)I);
    num = b;
    num += above ? std::string(extra, '0') + "1" : std::string(extra + 1, 'f');
    snprintf(b, sizeof b, "p%d", e2);
    num += b;
  } else {
    // exact decimal expansion of N * 2^e2
    std::string ip, fp;
    if (e2 >= 0) { ip = u128dec(N << e2); }
    else {
      unsigned k = (unsigned)-e2;   // N / 2^k = N * 5^k / 10^k, k <= 41: N * 5^k < 2^26 * 2^96
      u128 D = N;
      for (unsigned i = 0; i < k; i++) D *= 5;
      std::string ds = u128dec(D);
      if (ds.size() <= k) ds = std::string(k - ds.size() + 1, '0') + ds;
      ip = ds.substr(0, ds.size() - k);
      fp = ds.substr(ds.size() - k);
    }
    if (above) num = ip + "." + fp + std::string(extra, '0') + "1";
    else {
      // subtract one unit in the last place of the exact expansion, then append nines
      std::string all = ip + fp;
      size_t i = all.size();
      while (i > 0 && all[i - 1] == '0') { all[i - 1] = '9'; i--; }
      if (i > 0) all[i - 1]--;
      num = all.substr(0, ip.size()) + "." + all.substr(ip.size()) + std::string(extra, '9');
    }
  }
  std::string text = (neg ? "-" : "") + num;
  TI t = kT[dbl ? Td : Tf];
  uint64_t Mr = above ? M + 1 : M;
  long double want = ldexpl((long double)Mr, e);
  if (neg) want = -want;
  static const char *ename[] = {"mpt_cfloat/mpt_cdouble", "mpt_convert_number", "mpt_convert_string"};
  c.logf("numeral %s: %s the midpoint between %s and its %s neighbour", quoted(text).c_str(), above ? "just above" : "just below", ldstr(ldexpl((long double)M, e)).c_str(), dbl ? "double" : "float");
  c.label(dbl ? "midpoint:double" : hexsp ? "midpoint:float-hex" : "midpoint:float-decimal");
  char *txt = (char *)malloc(text.size() + 1);
  memcpy(txt, text.c_str(), text.size() + 1);
  struct Free { char *p; ~Free() { free(p); } } fr = {txt};
  Dest d;
  int r = call_canary(d, canary, 1, [&](void *p) -> int {
    if (entry == 0) return dbl ? mpt_cdouble((double *)p, txt, 0) : mpt_cfloat((float *)p, txt, 0);
    if (entry == 1) return mpt_convert_number(txt, t.id, p);
    return mpt_convert_string(txt, (type_t)t.id, p);
  });
  c.logf("  %s to '%c': ret %d", ename[entry], t.id, r);
  c.nontrivial();
  if (r <= 0) {   // refusal is allowed
    if (!d.untouched()) c.fail("midpoint:refused-dirty", "%s %s: returned %d but destination bytes changed", ename[entry], quoted(text).c_str(), r);
    c.label("midpoint:refused");
    return;
  }
  if ((size_t)r != text.size())
    c.fail("midpoint:bad-prefix", "%s %s: reports %d of %zu characters consumed; the whole text is one numeral", ename[entry], quoted(text).c_str(), r, text.size());
  long double g = d.getf(t);
  if (g != want)
    c.fail(tagof("midpoint", "wrong-rounding", t.id).c_str(), "%s %s: the numeral lies %s the midpoint, the nearest '%c' value is %s, destination holds %s", ename[entry], quoted(text).c_str(),
           above ? "just above" : "just below", t.id, ldstr(want).c_str(), ldstr(g).c_str());
  if (!d.outside_intact(t.width)) c.fail("midpoint:canary", "%s %s: bytes outside the target changed", ename[entry], quoted(text).c_str());
  c.label("midpoint:correctly-rounded");
}

// ------------------------------------------------------------------ case
static void data_op(Ctx &c, uint8_t canary, bool absent) {
  int sti = (int)c.pick(NT), tti = (int)c.pick(NT);
  Val s = kT[sti].flt ? gen_flt(c, kT[sti]) : gen_int(c, kT[sti]);
  if (absent) { s.iv = 0; s.fv = 0; c.label("src:absent"); c.nontrivial(); }   // the drawn value is discarded: the decoding of committed cases stays as it is
  if (in_some_range_violation(s)) c.nontrivial();
  char lab[16];
  snprintf(lab, sizeof lab, "from:%c", kT[sti].id);
  c.label(lab);
  snprintf(lab, sizeof lab, "to:%c", kT[tti].id);
  c.label(lab);
  data_pair(c, sti, s, tti, EDirect | EValue | EConsume | ECopy, canary, absent);
}

static const int kEnumSrc[] = {Tc, Tb, Ty, Tn, Tq};

static void run(Ctx &c) {
  uint8_t sel = c.u8();
  if (sel == 0xff) {  // enumerated sub-space: one 8/16 bit source value, all targets, all entries, both modes
    int sti = kEnumSrc[c.pick(5)];
    uint16_t raw = c.u16();
    const TI &st = kT[sti];
    Val s = {false, fit(st, (i128)raw), 0};
    c.logf("enumerated: source '%c' value %s", st.id, i128str(s.iv).c_str());
    for (int tti = 0; tti < NT; tti++) data_pair(c, sti, s, tti, EDirect | EValue | EConsume | ECopy, 0xA5);
    if (in_some_range_violation(s)) c.nontrivial();
    c.label("enumerated");
    return;
  }
  if (sel == 0xfe) {  // enumerated sub-space: source type without data address (stands for zero), all targets, all entries, both modes
    int sti = (int)c.pick(NT);
    Val s = {kT[sti].flt, 0, 0};
    c.logf("enumerated: source '%c' without data address", kT[sti].id);
    for (int tti = 0; tti < NT; tti++) data_pair(c, sti, s, tti, EDirect | EValue | EConsume | ECopy, 0xA5, true);
    c.nontrivial();
    c.label("enumerated-absent");
    return;
  }
  if ((sel & 0xC7) == 0x84) { vararg_case(c, (sel & 8) ? 0xA5 : 0x5A); return; }    // 0x84, 0x8c, .. 0xbc
  if ((sel & 0xC7) == 0x44) { midpoint_case(c, (sel & 8) ? 0xA5 : 0x5A); return; }  // 0x44, 0x4c, .. 0x7c
  if ((sel & 0xC7) == 0xC4) { foreign_case(c, (sel & 8) ? 0xA5 : 0x5A); return; }   // 0xc4, 0xcc, .. 0xfc
  uint8_t canary = (sel & 1) ? 0xA5 : 0x5A;
  bool absent = (sel & 0x38) == 0x08;   // one case in eight: the data conversions of this case read a source without data address
  if ((sel & 6) == 2) { iterator_case(c, canary); return; }   // selector 0 / 0xff keep the decoding of the committed corpus
  do {
    if (c.weighted({1, 1})) text_op(c, canary);
    else data_op(c, canary, absent);
  } while (c.more());
}

// exhaustive: every value of the 8 bit source types c,b,y and of the 16 bit source types n,q
static uint64_t enum_count(int) { return 3 * 256 + 2 * 65536; }
static void enum_make(uint64_t idx, int, std::vector<uint8_t> &out) {
  out.clear();
  out.push_back(0xff);
  unsigned src;
  uint16_t v;
  if (idx < 3 * 256) { src = (unsigned)(idx / 256); v = (uint16_t)(idx % 256); }
  else { idx -= 3 * 256; src = 3 + (unsigned)(idx / 65536); v = (uint16_t)(idx % 65536); }
  out.push_back((uint8_t)src);
  out.push_back((uint8_t)(v & 0xff));
  out.push_back((uint8_t)(v >> 8));
}

static uint64_t enum2_count(int) { return NT; }
static void enum2_make(uint64_t idx, int, std::vector<uint8_t> &out) {
  out.clear();
  out.push_back(0xfe);
  out.push_back((uint8_t)idx);
}

// exhaustive: every fixed foreign target id x every source type (fixed value 65 / numeral "65")
static uint64_t enum3_count(int) { register_types(); return (uint64_t)foreign_ids().size() * NT; }
static void enum3_make(uint64_t idx, int, std::vector<uint8_t> &out) {
  uint64_t fid = idx / NT, sti = idx % NT;
  out = {0xc4, 0xff, (uint8_t)(fid & 0xff), (uint8_t)(fid >> 8), (uint8_t)sti};
}
// exhaustive: vararg lists of two arguments, all 13 x 13 type pairs, each consumed with its own type
static uint64_t enum4_count(int) { return NT * NT; }
static void enum4_make(uint64_t idx, int, std::vector<uint8_t> &out) { out = {0x84, 0xff, (uint8_t)(idx / NT), (uint8_t)(idx % NT)}; }

// exhaustive: float midpoints for 8 consecutive significands x 2 exponents x {above, below} x {decimal, hex} x sign x 3 entry points
static uint64_t enum5_count(int) { return 8 * 2 * 2 * 2 * 2 * 3; }
static void enum5_make(uint64_t idx, int, std::vector<uint8_t> &out) { out = {0x44, 0xff, (uint8_t)(idx & 0xff), (uint8_t)(idx >> 8)}; }

static Target t = {
    "C07",
    "random: sequences of (a) data conversions: source type x target type over {c,b,y,n,q,i,u,x,t,l,f,d,e}, source value from target-range boundaries +-2, "
    "2^k+-1, 0/+-1, random bit lengths, printable-character aliases mod 2^8/2^32; floats from subnormal/min/max/rounding-midpoint/2^24/2^53/2^63/2^64 specials +-2 ulp, "
    "inf, NaN, random; each through mpt_data_convert_*, mpt_value_convert and mpt_iterator_consume with and without destination; (b) numerals from a grammar "
    "(space, sign, 0x/0/0b prefix, leading zeros, magnitudes at 2^7..2^64 +-2, 2^k+-1, k*2^64+r, 1..40 random digits, fractions, exponents near every float limit, "
    "inf/nan, hex floats, trailing garbage) through the 14 mpt_c[u]int* wrappers (base 0/2..36, optional range), mpt_cfloat/cdouble/cldouble (optional range), "
    "mpt_convert_number and mpt_convert_string for all 13 ids, with and without destination; (c) one case in four: text argument iterator mpt_iterator_string over 0..5 generated "
    "numerals separated by generated blank runs (optional leading/trailing blanks), per element 0..3 requests (mpt_value_convert to any of the 13 ids with or without destination, string view, "
    "character-vector view) followed by mpt_iterator_consume to a drawn id: every result must equal the isolated mpt_convert_string of the remaining text, a blank rest delivers no value, "
    "and after a whole-word consume the next element starts behind the blank run; (d) 3%: the vararg argument iterator of mpt_process_vararg over 1..4 generated arguments of any of the 13 ids "
    "(hand-built x86-64 va_list), each consumed by mpt_iterator_consume with its own or a drawn id: element k's own number; (e) 3%: target type ids that are no scalar id but carry a scalar/vector code "
    "in the low byte or low 32 bits (meta pointer, static, registered via mpt_type_add, interface, private/address ids) through every entry point that takes a target id: must be refused, destination untouched. "
    "The harness iterator keeps its element in one slot that advance() overwrites; (f) 3%: numerals built 18..30 digits above/below the exact midpoint of two adjacent float (decimal or hex spelling) or double (hex) values "
    "through mpt_cfloat/mpt_cdouble, mpt_convert_number, mpt_convert_string: the nearest target value, known by construction. exhaustive: all 256/65536 values of source types c,b,y,n,q x 13 targets "
    "x 3 entry points x {dest, no dest}. non-trivial: a source value outside at least one target range (negative, > 127, non-integral or non-finite), or an accepted numeral "
    "above 32 bits, or an iterator element that was converted to at least two different target types before it was consumed; distinct by hash of the draw sequence.",
    run,
    {160, 400},
    false,
    true,
    {{"all values of 8/16 bit sources c,b,y,n,q x all targets x entries x {dest,no dest}", enum_count, enum_make},
     {"source without data address: 13 source types x 13 targets x entries x {dest,no dest}", enum2_count, enum2_make},
     {"target type ids beyond the scalar ids (scalar/vector low byte in the meta pointer, static, registered and private ranges; interface ids) x 13 source types x all entry points", enum3_count, enum3_make},
     {"vararg argument lists of two arguments: 13 x 13 types, each consumed with its own type", enum4_count, enum4_make},
     {"numerals just above/below the midpoint of adjacent floats: 8 significands x 2 exponents x decimal/hex x sign x 3 text entry points", enum5_count, enum5_make}},
    register_types,
    0,
};
Target &vp::target() { return t; }
