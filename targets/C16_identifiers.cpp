// C16 — names are stored and compared faithfully at every length        vp-link: core cxx
//
// G: <= 3 identifiers, each living in one of: caller storage of 16/24/32/64/88/128/216/256 bytes finished by
//    mpt_identifier_init (exact-size heap block), mpt_identifier_new(len), the identifier of a C node from
//    mpt_node_new(len) (libmptcore's own definition), a 16-byte element built by the identifier type traits
//    (copy-init/fini), a C++ mpt::identifier(total) on exact-size storage, a copy-constructed mpt::identifier, a
//    C++ item<metatype>. Histories of set(bytes,len | text,-1) / set(NULL,0) / copy(a<-b | a<-a | a<-NULL) /
//    compare(text) / inequal(a,b) / node locate / re-creation; lengths near every inline capacity, 250..254,
//    65533..65536.
//    Round 4: identifiers made by the C static initialiser MPT_IDENTIFIER_INIT (three adjacent ones followed by guard
//    bytes inside one block: ASan cannot see a write that stays inside the block) and set(NULL, n) ("non-printable
//    data": n zero bytes, no character set).
// O: model optional<string> (+ binary flag) per identifier (see report for the grounding of every check).
#include "vp.hpp"
#include "mpt_c.hpp"
#include "mpt_cinit.hpp"

#include <dlfcn.h>
#include <optional>

using namespace vp;
using namespace mpt;

// what an identifier holds: nothing, a text, or n bytes of "non-printable data" (set(NULL, n): zero-filled, no charset)
struct Model {
  std::optional<std::string> v;
  bool binary = false;
  Model() {}
  Model(const std::string &t, bool bin = false) : v(t), binary(bin) {}
  Model(const char *t) : v(std::string(t)) {}
  explicit operator bool() const { return v.has_value(); }
  const std::string &operator*() const { return *v; }
  const std::string *operator->() const { return &*v; }
  void reset() { v.reset(); binary = false; }
  bool text() const { return v.has_value() && !binary; }
  bool operator==(const Model &o) const { return v == o.v && binary == o.binary; }
};
static_assert(mpt_cview::identifier_size == sizeof(mpt::identifier), "C and C++ view of struct identifier differ");

// ---- failing: library state may be corrupt afterwards, so harness destructors must not call into it
static bool g_abandon;
#define CK(ctx, cond, tag, ...) \
  do { if (!(cond)) { g_abandon = true; (ctx).fail(tag, __VA_ARGS__); } } while (0)

// libmptcore's own mpt_node_new (libmpt++ interposes a C++ one under the same name)
typedef node *(*node_new_fn)(size_t);
static node_new_fn core_node_new() {
  static node_new_fn f = [] {
    void *h = dlopen("libmptcore.so", RTLD_NOW | RTLD_NOLOAD);
    return h ? (node_new_fn)dlsym(h, "mpt_node_new") : (node_new_fn)0;
  }();
  return f;
}

enum Kind { KInit, KNew, KNode, KTraits, KCxx, KCxxCopy, KItem, KStatic, NKind };
static const char *kKind[] = {"init", "new", "node", "traits", "c++", "c++copy", "item", "static"};
static const size_t kSizes[] = {16, 32, 64, 128, 256, 24, 88, 216};

struct Slot {
  int kind = -1;
  identifier *id = 0;
  void *block = 0;           // harness owned raw storage (KInit, KTraits, KCxx, KCxxCopy)
  node *nd = 0;              // KNode
  item<metatype> *it = 0;    // KItem
  Model model;
  bool cxx() const { return kind == KCxx || kind == KCxxCopy || kind == KItem; }
  size_t max() const { return id->_max; }
  bool external() const { return id->_len > id->_max; }
  void release() {
    if (kind < 0) return;
    int k = kind;
    kind = -1;
    if (g_abandon) {  // failed case: give back what the harness owns, leave the rest alone
      if (k == KItem || k == KNode || k == KNew || k == KStatic) return;
      free(block);
      return;
    }
    switch (k) {
      case KInit: mpt_identifier_set(id, 0, 0); free(block); break;
      case KNew: mpt_identifier_set(id, 0, 0); free(id); break;  // as examples/core/ident.c does
      case KNode: mpt_node_destroy(nd); break;
      case KTraits: mpt_identifier_traits()->fini(id); free(block); break;
      case KCxx: case KCxxCopy: id->~identifier(); free(block); break;
      case KItem: delete it; break;
      case KStatic: mpt_identifier_set(id, 0, 0); memcpy(id, &mpt_cview::identifier_init, sizeof(*id)); break;  // element stays in the arena
    }
    id = 0; block = 0; nd = 0; it = 0;
  }
  ~Slot() { release(); }
};

// three adjacent statically initialised identifiers followed by guard bytes, all inside one heap block
// (`struct { MPT_STRUCT(identifier) id[3]; uint8_t guard[16]; } x = { { MPT_IDENTIFIER_INIT, ... } }` of a C program)
struct Arena {
  enum { N = 3, Guard = 16 };
  uint8_t *p = 0;
  identifier *element(size_t i) {
    if (!p) {
      p = (uint8_t *)malloc(N * sizeof(identifier) + Guard);
      for (size_t k = 0; k < N; k++) memcpy(p + k * sizeof(identifier), &mpt_cview::identifier_init, sizeof(identifier));
      memset(p + N * sizeof(identifier), 0xA5, Guard);
    }
    return (identifier *)(p + i * sizeof(identifier));
  }
  ~Arena() { free(p); }
};
struct World {
  Ctx &c;
  Arena arena;  // declared before the slots: released after them
  Slot s[3];
  size_t n = 0;
  unsigned transitions = 0;
  // allocation-failure injection: `arm` = k makes the k-th library allocation of the NEXT library call fail
  long arm = 0, fail_seen = 0;
  bool armed_active = false;
  World(Ctx &ctx) : c(ctx) {}
  void arm_now() { if (arm > 0) { armed_active = true; vp::alloc_fail_after(arm); arm = 0; } }
  // -> an injected failure happened during the call
  bool disarm() {
    if (armed_active) { vp::alloc_fail_after(0); armed_active = false; }
    long f = vp::alloc_failures();
    bool hit = f > fail_seen;
    fail_seen = f;
    return hit;
  }
};
// does the identifier hold exactly this content? (used where an API has no way to report a failed allocation)
static bool reads_as(const identifier *id, const Model &m) {
  if (!m) return id->_len == 0;
  size_t want = m.binary ? m->size() : m->size() + 1;
  const char *d = (const char *)mpt_identifier_data(id);
  return id->_len == want && id->_charset == (m.binary ? 0 : identifier::UTF8) && d && !memcmp(d, m->data(), m->size());
}

static std::string show(const Model &m) {
  if (!m) return "<none>";
  char b[32];
  snprintf(b, sizeof b, "%s%zu:", m.binary ? "binary " : "", m->size());
  return std::string(b) + hex(m->data(), m->size(), 12);
}

// ---- observation: everything a caller can see of one identifier
static void check_slot(World &w, size_t i, const char *after) {
  Ctx &c = w.c;
  Slot &s = w.s[i];
  const identifier *id = s.id;
  const char *data = (const char *)mpt_identifier_data(id);
  CK(c, data, "data-null", "#%zu after %s: mpt_identifier_data returned NULL", i, after);
  if (!s.model) {
    CK(c, id->_len == 0, "readback-length", "#%zu after %s: cleared identifier has _len %u", i, after, (unsigned)id->_len);
    if (s.cxx()) CK(c, id->name() == 0, "readback-content", "#%zu after %s: cleared C++ identifier has a name", i, after);
    if (s.kind == KNode) CK(c, mpt_node_ident(s.nd) == 0, "readback-content", "#%zu after %s: node without name returns an identifier", i, after);
    return;
  }
  const std::string &m = *s.model;
  if (s.model.binary) {
    // set(NULL, n): n bytes of zero-filled non-character data
    CK(c, id->_len == m.size(), "readback-length", "#%zu after %s: _len %u, expected %zu bytes of binary data", i, after, (unsigned)id->_len, m.size());
    CK(c, id->_charset == 0, "readback-charset", "#%zu after %s: _charset %u for binary data", i, after, (unsigned)id->_charset);
    size_t z = 0;
    while (z < m.size() && data[z] == 0) ++z;
    CK(c, z == m.size(), "readback-content", "#%zu after %s: binary byte %zu of %zu is %02x, expected 00 (%s)", i, after, z, m.size(), (unsigned)(uint8_t)data[z], s.external() ? "external" : "inline");
    if (s.cxx()) CK(c, id->name() == 0, "readback-content", "#%zu after %s: C++ identifier with binary data has a name", i, after);
    if (s.kind == KNode) CK(c, mpt_node_ident(s.nd) == 0, "readback-content", "#%zu after %s: node with binary identifier returns a name", i, after);
    return;
  }
  CK(c, id->_len == m.size() + 1, "readback-length", "#%zu after %s: _len %u, expected %zu (text length %zu + terminator)", i, after, (unsigned)id->_len, m.size() + 1, m.size());
  CK(c, id->_charset == identifier::UTF8, "readback-charset", "#%zu after %s: _charset %u for a text name", i, after, (unsigned)id->_charset);
  size_t k = 0;
  while (k < m.size() && data[k] == m[k]) ++k;
  CK(c, k == m.size(), "readback-content", "#%zu after %s: byte %zu is %02x, expected %02x (length %zu, %s)", i, after, k, (unsigned)(uint8_t)data[k], (unsigned)(uint8_t)m[k], m.size(),
     s.external() ? "external" : "inline");
  CK(c, data[m.size()] == 0, "readback-terminator", "#%zu after %s: byte behind the %zu name bytes is %02x", i, after, m.size(), (unsigned)(uint8_t)data[m.size()]);
  if (s.cxx()) CK(c, id->name() == data, "readback-content", "#%zu after %s: name() differs from identifier data", i, after);
  if (s.kind == KNode) CK(c, mpt_node_ident(s.nd) == data, "readback-content", "#%zu after %s: mpt_node_ident differs from identifier data", i, after);
}
static void check_all(World &w, const char *after) {
  for (size_t i = 0; i < w.n; i++) if (w.s[i].kind >= 0) check_slot(w, i, after);
  // statically initialised neighbours nobody uses and the bytes behind the last one must be what they were
  if (w.arena.p) {
    Ctx &c = w.c;
    for (size_t e = 0; e < Arena::N; e++) {
      identifier *el = w.arena.element(e);
      bool used = false;
      for (size_t i = 0; i < w.n; i++) if (w.s[i].kind >= 0 && w.s[i].id == el) used = true;
      if (!used) CK(c, !memcmp(el, &mpt_cview::identifier_init, sizeof(*el)), "static-neighbour", "after %s: unused statically initialised identifier [%zu] changed to %s", after, e, hex(el, sizeof(*el), 16).c_str());
    }
    const uint8_t *g = w.arena.p + Arena::N * sizeof(identifier);
    for (size_t k = 0; k < Arena::Guard; k++) CK(c, g[k] == 0xA5, "static-guard", "after %s: byte %zu behind the last statically initialised identifier changed to %02x", after, k, (unsigned)g[k]);
  }
}

// ---- creation
// -> false: the creation was refused because of an injected allocation failure (nothing is left behind)
static bool create(World &w, size_t i, int kind, size_t arg, const Slot *from) {
  Ctx &c = w.c;
  Slot &s = w.s[i];
  s.model.reset();
  bool hit = false;
  switch (kind) {
    case KInit: {
      size_t size = kSizes[arg % 8];
      s.block = malloc(size);
      memset(s.block, 0x5a, size);
      s.id = (identifier *)s.block;
      mpt_identifier_init(s.id, size);
      s.kind = kind;
      CK(c, s.id->_max == size - 4, "init-capacity", "mpt_identifier_init(%zu) gives _max %u", size, (unsigned)s.id->_max);
      c.logf("#%zu = init on %zu bytes (_max %u)", i, size, (unsigned)s.id->_max);
      break;
    }
    case KNew: {
      w.arm_now();
      s.id = mpt_identifier_new(arg);
      hit = w.disarm();
      if (!s.id && hit) return false;
      CK(c, s.id, "new-refused", "mpt_identifier_new(%zu) returned NULL", arg);
      s.kind = kind;
      c.logf("#%zu = mpt_identifier_new(%zu) (_max %u)", i, arg, (unsigned)s.id->_max);
      break;
    }
    case KNode: {
      node_new_fn f = core_node_new();
      CK(c, f && f != &mpt_node_new, "harness", "libmptcore's mpt_node_new not found");
      w.arm_now();
      s.nd = f(arg);
      hit = w.disarm();
      if (!s.nd && hit) return false;
      CK(c, s.nd, "new-refused", "mpt_node_new(%zu) returned NULL", arg);
      s.id = &s.nd->ident;
      s.kind = kind;
      c.logf("#%zu = ident of mpt_node_new(%zu) (_max %u)", i, arg, (unsigned)s.id->_max);
      break;
    }
    case KTraits: {
      const type_traits *t = mpt_identifier_traits();
      CK(c, t && t->init && t->fini && t->size == sizeof(identifier), "harness", "identifier traits incomplete");
      s.block = malloc(t->size);
      memset(s.block, 0x5a, t->size);
      s.id = (identifier *)s.block;
      w.arm_now();
      int r = t->init(s.block, from ? from->id : 0);
      hit = w.disarm();
      if (r < 0) {
        // not constructed: nothing to finalise; whatever it allocated shows up as a leak
        free(s.block);
        s.block = 0; s.id = 0;
        if (hit) return false;
        CK(c, false, "copy-refused", "identifier traits init(%s) returned %d", from ? show(from->model).c_str() : "NULL", r);
      }
      s.kind = kind;
      if (from) s.model = from->model;
      c.logf("#%zu = traits init from %s -> %d", i, from ? show(from->model).c_str() : "nothing", r);
      break;
    }
    case KCxx: {
      size_t size = kSizes[arg % 8];
      s.block = malloc(size);
      memset(s.block, 0x5a, size);
      s.id = new (s.block) identifier(size);
      s.kind = kind;
      CK(c, s.id->_max == size - 4, "init-capacity", "identifier(%zu) gives _max %u", size, (unsigned)s.id->_max);
      c.logf("#%zu = C++ identifier(%zu)", i, size);
      break;
    }
    case KCxxCopy: {
      s.block = malloc(sizeof(identifier));
      memset(s.block, 0x5a, sizeof(identifier));
      w.arm_now();
      if (from) { s.id = new (s.block) identifier(*from->id); s.model = from->model; }
      else s.id = new (s.block) identifier();
      // a constructor cannot report a failed allocation: the copy is complete or empty
      if (w.disarm() && from && !reads_as(s.id, from->model)) { s.model.reset(); c.label("inject:create:empty-copy"); }
      s.kind = kind;
      c.logf("#%zu = C++ identifier(copy of %s)", i, from ? show(from->model).c_str() : "nothing");
      break;
    }
    case KItem: {
      w.arm_now();
      if (from && from->kind == KItem) { s.it = new item<metatype>(*from->it); s.model = from->model; c.label("item:copy-constructed"); }
      else s.it = new item<metatype>();
      s.id = s.it;
      if (w.disarm() && from && from->kind == KItem && !reads_as(s.id, from->model)) { s.model.reset(); c.label("inject:create:empty-copy"); }
      s.kind = kind;
      c.logf("#%zu = C++ item<metatype>(%s) (_max %u)", i, s.model ? show(s.model).c_str() : "", (unsigned)s.id->_max);
      break;
    }
    case KStatic: {
      s.id = w.arena.element(i);
      s.kind = kind;
      c.logf("#%zu = MPT_IDENTIFIER_INIT, element %zu of 3 adjacent identifiers (_max %u)", i, i, (unsigned)s.id->_max);
      // the declared capacity must lie inside the struct
      CK(c, 4u + s.id->_max <= sizeof(identifier), "static-capacity", "MPT_IDENTIFIER_INIT declares %u data bytes, struct identifier has room for %zu", (unsigned)s.id->_max, sizeof(identifier) - 4);
      break;
    }
  }
  CK(c, s.id->_len == 0 || s.model, "init-state", "fresh identifier has _len %u", (unsigned)s.id->_len);
  return true;
}

// ---- content generation
static std::string mk_content(Ctx &c, size_t len) {
  std::string s(len, 0);
  unsigned mode = (unsigned)c.weighted({4, 2, 1});
  uint8_t seed = c.u8();
  for (size_t i = 0; i < len; i++) s[i] = mode == 2 ? (char)(seed | 1) : (char)('a' + (seed + i) % 26);
  if (mode == 1) {  // arbitrary bytes (zeros, high bytes) at both ends
    for (size_t i = 0; i < len && i < 6; i++) s[i] = (char)c.u8();
    for (size_t i = 0; i < 3 && i < len; i++) s[len - 1 - i] = (char)c.u8();
  }
  return s;
}
static size_t draw_len(Ctx &c, size_t max_) {
  static const size_t caps[] = {11, 19, 27, 59, 83, 123, 211, 251};
  size_t cap = max_ ? max_ - 1 : 0;  // longest text kept inline
  switch (c.weighted({6, 3, 3, 2, 2, 1, 1})) {
    case 0: { size_t d = c.range(0, 4); return cap + d >= 2 ? cap + d - 2 : 0; }
    case 1: return c.range(0, 4);
    case 2: { size_t b = caps[c.pick(8)], d = c.range(0, 2); return b + d - 1; }
    case 3: return c.range(250, 254);
    case 4: return c.range(0, 400);
    case 5: return c.range(65533, 65536);
    default: return c.range(0, 70000);
  }
}

// an exact-size heap copy of a byte string, optionally NUL terminated
struct Exact {
  char *p;
  Exact(const std::string &s, bool terminate) {
    p = (char *)malloc(s.size() + (terminate ? 1 : 0));  // malloc(0) is a valid pointer to nothing under ASan
    memcpy(p, s.data(), s.size());
    if (terminate) p[s.size()] = 0;
  }
  ~Exact() { free(p); }
};

static const char *trans(bool was, bool is) { return was ? (is ? "ex>ex" : "ex>in") : (is ? "in>ex" : "in>in"); }
static void note_transition(World &w, const char *op, bool was, bool is) {
  char b[40];
  snprintf(b, sizeof b, "%s:%s", op, trans(was, is));
  w.c.label(b);
  if (was != is) ++w.transitions;
}

// ---- operations
static void op_set(World &w, size_t i, const std::string &text, bool by_strlen) {
  Ctx &c = w.c;
  Slot &s = w.s[i];
  bool was = s.external();
  Exact buf(text, by_strlen);
  int len = by_strlen ? -1 : (int)text.size();
  c.logf("set #%zu (%s, _max %u, %s) <- %s len=%d", i, kKind[s.kind], (unsigned)s.max(), show(s.model).c_str(), show(Model(text)).c_str(), len);
  bool ok, hit;
  w.arm_now();
  if (s.cxx()) { ok = s.id->set_name(buf.p, len); hit = w.disarm(); }
  else {
    void *r = mpt_identifier_set(s.id, buf.p, len);
    hit = w.disarm();
    ok = r != 0;
    if (ok) CK(c, r == mpt_identifier_data(s.id), "set-return", "mpt_identifier_set returned %p, data is at %p", r, mpt_identifier_data(s.id));
  }
  if (hit) c.label(ok ? "inject:set:survived" : "inject:set:refused");
  if (text.size() <= 65534) {
    // only a failed allocation excuses a refusal; then everything must read back as before (checked below)
    CK(c, ok || hit, "set-refused", "set of a %zu byte name refused (storage _max %u)", text.size(), (unsigned)s.max());
    if (ok) c.label("set:ok");
  } else {
    c.label(ok ? "set:overlong-accepted" : "set:overlong-refused");
  }
  if (ok) s.model = text;  // accepted: must read back (an accepted over-long name cannot, _len is 16 bit)
  check_all(w, ok ? "set" : "refused set");
  note_transition(w, "set", was, s.external());
}
static void op_clear(World &w, size_t i) {
  Ctx &c = w.c;
  Slot &s = w.s[i];
  bool was = s.external();
  c.logf("clear #%zu (%s)", i, show(s.model).c_str());
  w.arm_now();
  bool ok = s.cxx() ? s.id->set_name(0, 0) : mpt_identifier_set(s.id, 0, 0) != 0;
  w.disarm();
  CK(c, ok, "clear-refused", "set(NULL, 0) refused");
  s.model.reset();
  check_all(w, "clear");
  note_transition(w, "clear", was, s.external());
}
// set(NULL, n > 0): "Pass zero pointer for base address to indicate non-printable data" (doc of mpt_identifier_set)
static void op_set_binary(World &w, size_t i, size_t n) {
  Ctx &c = w.c;
  Slot &s = w.s[i];
  bool was = s.external();
  c.logf("set #%zu (%s, _max %u, %s) <- NULL len=%zu", i, kKind[s.kind], (unsigned)s.max(), show(s.model).c_str(), n);
  bool ok, hit;
  w.arm_now();
  if (s.cxx()) { ok = s.id->set_name(0, (int)n); hit = w.disarm(); }
  else {
    void *r = mpt_identifier_set(s.id, 0, (int)n);
    hit = w.disarm();
    ok = r != 0;
    if (ok) CK(c, r == mpt_identifier_data(s.id), "set-return", "mpt_identifier_set(NULL, %zu) returned %p, data is at %p", n, r, mpt_identifier_data(s.id));
  }
  if (hit) c.label(ok ? "inject:set-binary:survived" : "inject:set-binary:refused");
  if (n <= 65535) {
    CK(c, ok || hit, "set-refused", "set of %zu bytes of binary data refused (storage _max %u)", n, (unsigned)s.max());
    if (ok) c.label("set-binary:ok");
  } else {
    c.label(ok ? "set-binary:overlong-accepted" : "set-binary:overlong-refused");
  }
  if (ok) s.model = Model(std::string(n, '\0'), true);
  check_all(w, ok ? "set binary" : "refused set binary");
  note_transition(w, "set-binary", was, s.external());
}
// set from a range of the identifier's OWN current data (a caller shortening a name in place: prefix, suffix, middle, whole):
// the new content is what that range held before the call
static void op_set_alias(World &w, size_t i, size_t off, size_t len) {
  Ctx &c = w.c;
  Slot &s = w.s[i];
  bool was = s.external();
  const std::string old = *s.model;
  std::string want = old.substr(off, len);
  const char *data = (const char *)mpt_identifier_data(s.id);
  c.logf("set #%zu (%s, _max %u, %s, %s) <- its own data [%zu,+%zu)", i, kKind[s.kind], (unsigned)s.max(), show(s.model).c_str(), was ? "external" : "inline", off, len);
  bool ok;
  if (s.cxx()) ok = s.id->set_name(data + off, (int)len);
  else ok = mpt_identifier_set(s.id, data + off, (int)len) != 0;
  CK(c, ok, "set-refused", "set of %zu bytes of the identifier's own data refused", len);
  s.model = Model(want);
  check_all(w, "set from own data");
  char b[48];
  snprintf(b, sizeof b, "set-alias:%s", trans(was, s.external()));
  c.label(b);
  c.label(off == 0 ? (len == old.size() ? "set-alias:whole" : "set-alias:prefix") : off + len == old.size() ? "set-alias:suffix" : "set-alias:middle");
  if (was != s.external()) ++w.transitions;
}
static void check_equal(World &w, size_t a, size_t b, const char *after) {
  Ctx &c = w.c;
  bool same = w.s[a].model == w.s[b].model;
  int r1 = mpt_identifier_inequal(w.s[a].id, w.s[b].id), r2 = mpt_identifier_inequal(w.s[b].id, w.s[a].id);
  c.logf("inequal(#%zu,#%zu) = %d, reverse %d; models %s", a, b, r1, r2, same ? "equal" : "differ");
  CK(c, (r1 == 0) == same, "inequal-wrong", "%s: inequal(#%zu %s, #%zu %s) = %d", after, a, show(w.s[a].model).c_str(), b, show(w.s[b].model).c_str(), r1);
  CK(c, (r2 == 0) == same, "inequal-wrong", "%s: inequal(#%zu %s, #%zu %s) = %d", after, b, show(w.s[b].model).c_str(), a, show(w.s[a].model).c_str(), r2);
  c.label(same ? "inequal:equal" : "inequal:differ");
}
static void op_copy(World &w, size_t dst, int src /* -1: NULL */) {
  Ctx &c = w.c;
  Slot &d = w.s[dst];
  bool was = d.external();
  const identifier *from = src < 0 ? 0 : w.s[src].id;
  c.logf("copy #%zu (%s, _max %u, %s) <- #%d %s", dst, kKind[d.kind], (unsigned)d.max(), show(d.model).c_str(), src, src < 0 ? "NULL" : show(w.s[src].model).c_str());
  bool ok = true, hit;
  w.arm_now();
  if (d.kind == KItem && src >= 0 && w.s[src].kind == KItem && (size_t)src != dst) {
    *d.it = *w.s[src].it;  // implicit item assignment
    hit = w.disarm();
    c.label("copy:item=item");
    if (hit) ok = reads_as(d.id, w.s[src].model);  // an assignment operator cannot report: complete or untouched
  } else if (d.cxx() && from) {
    if (d.kind == KItem) *d.it = *from;
    else *d.id = *from;
    hit = w.disarm();
    if (hit) ok = reads_as(d.id, w.s[src].model);
  } else {
    void *r = mpt_identifier_copy(d.id, from);
    hit = w.disarm();
    CK(c, r || hit, "copy-refused", "mpt_identifier_copy returned NULL");
    ok = r != 0;
  }
  if (hit) c.label(ok ? "inject:copy:survived" : "inject:copy:refused");
  if (ok) {
    if (src < 0) d.model.reset();
    else d.model = w.s[src].model;
  }
  // after a failed copy the target (and everything else) must read back exactly as before
  check_all(w, ok ? "copy" : "refused copy");
  if (src >= 0 && ok) check_equal(w, dst, src, "after copy");
  if (src >= 0 && (size_t)src == dst) c.label("copy:self");
  else if (src < 0) c.label("copy:null");
  else note_transition(w, "copy", was, d.external());
}
static void op_compare(World &w, size_t i, const std::string &text, bool by_strlen, const char *how) {
  Ctx &c = w.c;
  Slot &s = w.s[i];
  Exact buf(text, by_strlen);
  int len = by_strlen ? -1 : (int)text.size();
  bool same = s.model.text() && *s.model == text;
  int r;
  if (s.cxx()) r = s.id->equal(buf.p, len) ? 0 : 1;
  else {
    r = mpt_identifier_compare(s.id, buf.p, len);
    // documented: "mpt::BadType  identifier has non-character content"
    if (s.model.binary) CK(c, r == BadType, "compare-wrong", "compare(#%zu %s, text) = %d, documented result for non-character content is BadType (%d)", i, show(s.model).c_str(), r, (int)BadType);
  }
  c.logf("compare #%zu (%s) with %s (%s) len=%d -> %d", i, show(s.model).c_str(), show(Model(text)).c_str(), how, len, r);
  CK(c, (r == 0) == same, "compare-wrong", "compare(#%zu %s, %s) = %d, contents %s", i, show(s.model).c_str(), show(Model(text)).c_str(), r, same ? "are equal" : "differ");
  if (s.kind == KNode) {
    node *f = mpt_node_locate(s.nd, 1, buf.p, text.size(), -1);
    CK(c, f == (same ? s.nd : 0), "locate-wrong", "mpt_node_locate(node %s, 1, %s) = %p, contents %s", show(s.model).c_str(), show(Model(text)).c_str(), (void *)f, same ? "are equal" : "differ");
    c.label("compare:locate");
  }
  char b[48];
  snprintf(b, sizeof b, "compare:%s:%s", how, same ? "eq" : "ne");
  c.label(b);
  check_slot(w, i, "compare");
}

// a text related to the content of identifier i
static std::string related(Ctx &c, const Slot &s, const char *&how) {
  std::string t = s.model ? *s.model : std::string();
  switch (c.weighted({4, 3, 2, 2, 1})) {
    case 0: how = "same"; return t;
    case 1:
      how = "byte-changed";
      if (t.empty()) return t;
      {
        size_t pos = c.weighted({1, 1, 1}) == 0 ? 0 : c.flip() ? t.size() - 1 : c.pick(t.size());
        t[pos] = (char)(t[pos] ^ (1 + c.pick(255)));
      }
      return t;
    case 2: how = "shorter"; if (!t.empty()) t.pop_back(); return t;
    case 3: how = "longer"; t.push_back((char)c.u8()); return t;
    default: how = "fresh"; return mk_content(c, draw_len(c, s.id->_max));
  }
}

// ---- locating nodes by name in a list (mpt_node_locate): a list of C nodes with repeated names, the model is the list of names
//      pos > 0: the pos-th node of that name from the start node on (start node included); pos < 0: the |pos|-th before the
//      start node; pos == 0: the last one in the whole list (doc comment of mpt_node_locate).
//      charset < 0: name given as (address, length) without terminator, nodes with text names match;
//      charset UTF8 given explicitly: the length includes the terminator.
struct NodeList {
  std::vector<node *> nd;
  std::vector<Model> name;
  ~NodeList() {
    for (node *n : nd) { n->next = n->prev = n->parent = 0; }
    if (!g_abandon) for (node *n : nd) mpt_node_destroy(n);
  }
  void link() {  // plain doubly linked list without parent, as MPT_NODE_INIT users build it
    for (size_t i = 0; i < nd.size(); i++) {
      nd[i]->prev = i ? nd[i - 1] : 0;
      nd[i]->next = i + 1 < nd.size() ? nd[i + 1] : 0;
    }
  }
  long expected(size_t start, int pos, const std::string &key) const {
    auto match = [&](size_t i) { return name[i].text() && *name[i] == key; };
    if (pos > 0) { for (size_t i = start; i < nd.size(); i++) if (match(i) && !--pos) return (long)i; return -1; }
    if (pos == 0) { for (size_t i = nd.size(); i-- > 0;) if (match(i)) return (long)i; return -1; }
    for (size_t i = start; i-- > 0;) if (match(i) && !++pos) return (long)i;
    return -1;
  }
};
enum { FormExact, FormSegment, FormTerminated, FormExplicit };
static const char *kForm[] = {"exact-size copy", "segment of a longer string", "zero terminated", "explicit charset, length with terminator"};
static void locate_once(Ctx &c, NodeList &l, size_t start, int pos, const std::string &key, int form, const std::string &tail) {
  std::string arg = key;
  size_t len = key.size();
  int charset = -1;
  switch (form) {
    case FormSegment: arg += tail; break;          // followed by other (non-zero) bytes, e.g. "abc" in "abc.def"
    case FormTerminated: arg.push_back('\0'); break;
    case FormExplicit: arg.push_back('\0'); len = key.size() + 1; charset = identifier::UTF8; break;
  }
  Exact buf(arg, false);  // exact-size heap block: reading behind the given length is an ASan report for FormExact
  node *got = mpt_node_locate(l.nd[start], pos, buf.p, len, charset);
  long want = l.expected(start, pos, key);
  long gi = -1;
  for (size_t i = 0; i < l.nd.size(); i++) if (l.nd[i] == got) gi = (long)i;
  c.logf("locate(from [%zu], pos %d, %s, %s) = [%ld], expected [%ld]", start, pos, show(Model(key)).c_str(), kForm[form], got ? gi : -1L, want);
  CK(c, !got || gi >= 0, "locate-wrong", "mpt_node_locate returned a node that is not in the list");
  CK(c, gi == want, "locate-wrong", "mpt_node_locate(from [%zu] of %zu nodes, pos %d, name %s as %s) found [%ld], the list has it at [%ld]", start, l.nd.size(), pos, show(Model(key)).c_str(), kForm[form], gi, want);
  char b[48];
  snprintf(b, sizeof b, "locate:%s:%s", pos > 0 ? "forward" : pos < 0 ? "backward" : "last", want >= 0 ? "found" : "none");
  c.label(b);
  c.label(form == FormExact ? "locate:arg-exact" : form == FormSegment ? "locate:arg-segment" : form == FormTerminated ? "locate:arg-terminated" : "locate:arg-explicit-charset");
}
static void add_node(Ctx &c, NodeList &l, const Model &name, size_t newarg) {
  node_new_fn f = core_node_new();
  CK(c, f && f != &mpt_node_new, "harness", "libmptcore's mpt_node_new not found");
  node *n = f(newarg);
  CK(c, n, "new-refused", "mpt_node_new(%zu) returned NULL", newarg);
  l.nd.push_back(n);
  l.name.push_back(Model());
  if (name) {
    Exact buf(*name, false);
    CK(c, mpt_identifier_set(&n->ident, buf.p, (int)name->size()) != 0, "set-refused", "set of a %zu byte node name refused", name->size());
    l.name.back() = name;
  }
  c.logf("node [%zu] = mpt_node_new(%zu) named %s (%s)", l.nd.size() - 1, newarg, show(name).c_str(), n->ident._len > n->ident._max ? "external" : "inline");
}
static void op_locate(Ctx &c) {
  NodeList l;
  // a family of related names: base, base + one byte, base without its last byte, a long one, the empty one, none
  std::string base = mk_content(c, c.weighted({3, 1}) ? c.range(17, 22) : c.range(1, 8));
  for (auto &ch : base) if (!ch) ch = 1;
  std::string longer = base + "x", shorter = base.substr(0, base.size() - 1), big = mk_content(c, 300);
  const Model fam[] = {Model(base), Model(longer), Model(shorter), Model(big), Model(std::string()), Model()};
  size_t n = c.range(1, 6);
  for (size_t i = 0; i < n; i++) {
    size_t which = c.weighted({6, 2, 2, 2, 1, 1});
    static const size_t args[] = {0, 24, 100, 250};
    add_node(c, l, fam[which], args[c.pick(4)]);
  }
  l.link();
  bool any_ext = false;
  for (node *x : l.nd) if (x->ident._len > x->ident._max) any_ext = true;
  if (any_ext) c.label("locate:external-name");
  unsigned calls = 0;
  do {
    size_t which = c.weighted({6, 2, 2, 2, 1, 1});
    std::string key = which < 5 ? *fam[which] : base + "?";  // the last one is in no node
    size_t start = c.pick(n);
    int pos = (int)c.range(0, 9) - 3;                         // -3 .. 6
    int form = (int)c.weighted({3, 3, 1, 1});
    locate_once(c, l, start, pos, key, form, ".def");
  } while (++calls < 8 && c.more());
  // the names are still what they were
  for (size_t i = 0; i < l.nd.size(); i++) {
    const identifier &id = l.nd[i]->ident;
    if (!l.name[i]) CK(c, id._len == 0, "readback-length", "node [%zu] has no name, _len %u", i, (unsigned)id._len);
    else CK(c, id._len == l.name[i]->size() + 1 && !memcmp(mpt_identifier_data(&id), l.name[i]->data(), l.name[i]->size()), "readback-content", "name of node [%zu] changed", i);
  }
  c.label("op:locate");
  c.nontrivial();
}

static int draw_kind(Ctx &c) { return (int)c.weighted({6, 3, 2, 1, 2, 1, 2, 3}); }  // new kinds are added at the end: earlier bytes keep their meaning
static void create_drawn(World &w, size_t i) {
  Ctx &c = w.c;
  int kind = draw_kind(c);
  size_t arg = 0;
  const Slot *from = 0;
  switch (kind) {
    case KInit: case KCxx: arg = c.weighted({3, 3, 3, 3, 3, 1, 1, 1}); break;
    case KNew: arg = c.weighted({3, 1}) ? c.range(65530, 65540) : c.near({0, 28, 60, 124, 252}, 300); if (arg > 65535) arg = 65535; break;
    case KNode: arg = c.near({0, 24, 88, 216}, 300); break;
    case KTraits: case KCxxCopy: case KItem: {
      // copy-construct from an existing identifier (item: from an existing item) when there is one
      std::vector<size_t> live;
      for (size_t k = 0; k < w.n; k++) if (k != i && w.s[k].kind >= 0 && (kind != KItem || w.s[k].kind == KItem)) live.push_back(k);
      if (!live.empty() && c.weighted({1, 3})) from = &w.s[live[c.pick(live.size())]];
      break;
    }
  }
  if (!create(w, i, kind, arg, from)) {
    // refused because of the injected failure (nothing may be left behind: leak oracle); the slot is needed, build it again
    c.logf("#%zu: creation of kind %s refused under allocation failure", i, kKind[kind]);
    c.label("inject:create:refused");
    CK(c, create(w, i, kind, arg, from), "harness", "second creation failed");
  }
  c.label((std::string("kind:") + kKind[kind]).c_str());
  if (from) note_transition(w, "copy-init", false, w.s[i].external());
}

static void run_enum(Ctx &c);
static void run_enum_locate(Ctx &c);

static void run(Ctx &c) {
  g_abandon = false;
  uint8_t sel = c.u8();
  if (sel == 0xff) { run_enum(c); return; }
  if (sel == 0xfe) { run_enum_locate(c); return; }
  World w(c);
  size_t n = 1 + sel % 3;
  for (size_t i = 0; i < n; i++) { w.n = i + 1; create_drawn(w, i); }
  check_all(w, "creation");
  for (size_t i = 0; i < n; i++) if (w.s[i].model) for (size_t k = 0; k < n; k++) if (k != i && w.s[k].model == w.s[i].model) { check_equal(w, i, k, "after copy-init"); break; }
  unsigned ops = 0;
  while (c.more() && ops < 60) {
    ++ops;
    size_t i = c.pick(n);
    switch (c.weighted({8, 2, 6, 5, 3, 1, 3, 3, 2, 2})) {  // new operations are added at the end
      case 0: {
        size_t len = draw_len(c, w.s[i].max());
        std::string t = mk_content(c, len);
        bool by_strlen = t.find('\0') == std::string::npos && c.chance(64);
        op_set(w, i, t, by_strlen);
        break;
      }
      case 1: op_clear(w, i); break;
      case 2: {
        int src = (int)c.weighted({1, 1, 8});
        if (src == 0) op_copy(w, i, -1);
        else if (src == 1 || n == 1) op_copy(w, i, (int)i);
        else { size_t k = (i + 1 + c.pick(n - 1)) % n; op_copy(w, i, (int)k); }
        break;
      }
      case 3: {
        const char *how = "";
        size_t k = c.pick(n);  // text related to this or another identifier's content
        std::string t = related(c, w.s[c.flip() ? i : k], how);
        bool by_strlen = t.find('\0') == std::string::npos && c.chance(64);
        op_compare(w, i, t, by_strlen, how);
        break;
      }
      case 4: check_equal(w, i, c.pick(n), "inequal"); break;
      case 5:
        c.logf("release #%zu", i);
        w.s[i].release();
        create_drawn(w, i);
        check_all(w, "re-creation");
        c.label("recreate");
        break;
      case 6: {
        size_t len = draw_len(c, w.s[i].max() + 1);  // binary data has no terminator: inline up to _max bytes
        op_set_binary(w, i, len ? len : 1);
        break;
      }
      case 7: op_locate(c); break;
      case 9: {  // set from the identifier's own data; give it content first when it has none
        Slot &sl = w.s[i];
        if (!sl.model || sl.model->empty()) op_set(w, i, mk_content(c, draw_len(c, sl.max())), false);
        if (!sl.model || sl.model->size() > 65534) break;
        size_t L = sl.model->size(), off, len;
        switch (c.weighted({3, 3, 1, 2})) {
          case 0: off = 0; len = c.weighted({1, 1}) ? c.range(0, L) : std::min(L, (size_t)(sl.max() ? sl.max() - 1 : 0)); break;  // prefix (often: the longest that fits inline)
          case 1: len = c.weighted({1, 1}) ? c.range(0, L) : std::min(L, (size_t)(sl.max() ? sl.max() - 1 : 0)); off = L - len; break;  // suffix
          case 2: off = 0; len = L; break;
          default: off = c.range(0, L); len = c.range(0, L - off); break;
        }
        op_set_alias(w, i, off, len);
        break;
      }
      case 8: {  // one step with the k-th library allocation failing
        long k = 1 + (long)c.weighted({4, 1, 1});
        size_t max_ = w.s[i].max();
        switch (c.weighted({4, 2, 4, 2, 1, 1})) {
          case 0: {  // text that needs an allocation
            std::string t = mk_content(c, max_ + c.range(0, 300));
            c.logf("inject: allocation %ld fails", k);
            c.label("inject:set");
            w.arm = k;
            op_set(w, i, t, false);
            break;
          }
          case 1:
            c.logf("inject: allocation %ld fails", k);
            c.label("inject:set-binary");
            w.arm = k;
            op_set_binary(w, i, max_ + 1 + c.range(0, 300));
            break;
          case 2: {
            size_t src = n > 1 ? (i + 1 + c.pick(n - 1)) % n : i;
            c.logf("inject: allocation %ld fails", k);
            c.label("inject:copy");
            w.arm = k;
            op_copy(w, i, (int)src);
            break;
          }
          case 3:
            c.logf("release #%zu; inject: allocation %ld fails", i, k);
            c.label("inject:create");
            w.s[i].release();
            w.arm = k;
            create_drawn(w, i);
            check_all(w, "re-creation");
            break;
          case 4: {  // no allocation needed: must succeed with the failure still pending
            std::string t = mk_content(c, c.range(0, max_ ? max_ - 1 : 0));
            c.label("inject:set-inline");
            w.arm = k;
            op_set(w, i, t, false);
            break;
          }
          default:
            c.label("inject:clear");
            w.arm = k;
            op_clear(w, i);
            break;
        }
        w.arm = 0;
        w.disarm();
        break;
      }
      default: break;
    }
  }
  if (w.transitions) c.nontrivial();
  c.count("transitions", w.transitions);
  for (size_t i = n; i-- > 0;) w.s[i].release();
}

// ---- exhaustive: storage size x previous length x new length x {set, copy from each storage size} x {C, C++}
//      storage: init/C++ on 16,32,64,128,256 bytes | MPT_IDENTIFIER_INIT (first of three adjacent ones)
//      lengths {none, text 0, 1, cap-1, cap, cap+1, cap+2, 300 | binary 1, max-1, max, max+1, max+2, 300},
//      cap = longest text kept inline (_max - 1), max = most binary bytes kept inline (_max)
static size_t enum_len(size_t idx, size_t max_) {
  size_t cap = max_ - 1;
  static const int d[] = {-1, 0, 1, 2};
  switch (idx) {
    case 1: return 0;
    case 2: return 1;
    case 7: return 300;
    case 8: return 1;
    case 13: return 300;
    default: return idx < 8 ? cap + d[idx - 3] : max_ + d[idx - 9];
  }
}
// bring an identifier to the enumerated content (idx > 0)
static void enum_set(World &w, size_t slot, size_t idx, size_t max_) {
  if (idx < 8) op_set(w, slot, mk_content(w.c, enum_len(idx, max_)), false);
  else op_set_binary(w, slot, enum_len(idx, max_));
}
static void run_enum(Ctx &c) {
  size_t si = c.pick(6), pi = c.pick(14), ni = c.pick(14), op = c.pick(12), api = c.pick(2);
  bool inject = op >= 6;  // the same operation with its first library allocation failing
  if (inject) op -= 6;
  World w(c);
  w.n = 1;
  if (si == 5) create(w, 0, KStatic, 0, 0);
  else create(w, 0, api ? KCxx : KInit, si, 0);
  size_t max_ = w.s[0].max();
  c.logf("enumerated: storage %s, previous %zu, new %zu, %s", si == 5 ? "static" : std::to_string(kSizes[si]).c_str(), pi, ni, op ? "copy" : "set");
  if (pi) enum_set(w, 0, pi, max_);
  if (op == 0) {
    if (inject) { w.arm = 1; c.label("inject:enumerated"); }
    if (ni) enum_set(w, 0, ni, max_);
    else op_clear(w, 0);
    w.arm = 0; w.disarm();
    if (w.s[0].model) { const char *how = "same"; op_compare(w, 0, *w.s[0].model, false, how); }
  } else {
    w.n = 2;
    create(w, 1, api ? KCxx : KInit, op - 1, 0);
    if (ni) enum_set(w, 1, ni, max_);
    if (inject) { w.arm = 1; c.label("inject:enumerated"); }
    op_copy(w, 0, 1);
    w.arm = 0; w.disarm();
    // the copy is independent of its source
    op_set(w, 1, "x", false);
    if (w.s[0].model) { op_compare(w, 0, *w.s[0].model, false, "same"); }
    check_equal(w, 0, 1, "after source change");
  }
  c.nontrivial();
  for (size_t i = w.n; i-- > 0;) w.s[i].release();
}
static uint64_t enum_count(int) { return 6 * 14 * 14 * 12 * 2; }
static void enum_make(uint64_t idx, int, std::vector<uint8_t> &out) {
  out.clear();
  out.push_back(0xff);
  out.push_back(idx % 6); idx /= 6;
  out.push_back(idx % 14); idx /= 14;
  out.push_back(idx % 14); idx /= 14;
  out.push_back(idx % 12); idx /= 12;
  out.push_back(idx % 2);
  for (int i = 0; i < 8; i++) out.push_back(0);  // content draws: pattern mode, seed 0
}

// ---- exhaustive: lists of 1..3 nodes named {"ab", "abc", none} x start node x pos -3..3 x key {"ab","abc","a"} x 4 argument forms
static void run_enum_locate(Ctx &c) {
  static const char *names[] = {"ab", "abc", 0};
  NodeList l;
  size_t n = c.range(1, 3);
  for (size_t i = 0; i < n; i++) { const char *nm = names[c.pick(3)]; add_node(c, l, nm ? Model(nm) : Model(), 0); }
  l.link();
  size_t start = c.pick(n);
  int pos = (int)c.range(0, 6) - 3;
  static const char *keys[] = {"ab", "abc", "a"};
  std::string key = keys[c.pick(3)];
  locate_once(c, l, start, pos, key, (int)c.pick(4), "c.def");
  c.nontrivial();
}
static uint64_t enum_locate_count(int) { return (3 + 9 + 27) * 3 * 7 * 3 * 4; }
static void enum_locate_make(uint64_t idx, int, std::vector<uint8_t> &out) {
  out.clear();
  out.push_back(0xfe);
  uint64_t form = idx % 4; idx /= 4;
  uint64_t key = idx % 3; idx /= 3;
  uint64_t pos = idx % 7; idx /= 7;
  uint64_t start = idx % 3; idx /= 3;
  uint64_t n = 1, span = 3;
  while (idx >= span) { idx -= span; span *= 3; ++n; }
  out.push_back((uint8_t)(n - 1));
  for (uint64_t i = 0; i < n; i++) { out.push_back(idx % 3); idx /= 3; }
  out.push_back((uint8_t)(start % n));  // start indices beyond the list fold onto it (a few duplicates)
  out.push_back((uint8_t)pos);
  out.push_back((uint8_t)key);
  out.push_back((uint8_t)form);
}

static Target t = {
    "C16",
    "random: 1-3 identifiers in storage made by mpt_identifier_init on 16/24/32/64/88/128/216/256 byte blocks, mpt_identifier_new(len), mpt_node_new(len), the identifier type traits, "
    "C++ identifier(total)/copy constructor/item<metatype>; up to 60 operations set(bytes,len | text,-1)/clear/copy(other|self|NULL)/compare(same|one byte changed|shorter|longer|fresh)/inequal/"
    "node locate/re-create, lengths around each inline capacity, 250..254, 65533..65536; all identifiers read back after every operation. "
    "Also identifiers made by the C static initialiser MPT_IDENTIFIER_INIT (three adjacent ones + guard bytes in one block, unused neighbours and guard compared after every operation) "
    "and set(NULL, n) (n zero bytes of non-character data; text compare must answer BadType). "
    "Locating by name: lists of 1-6 C nodes with repeated names out of a family (base, base+1 byte, base-1 byte, 300 bytes, empty, none), mpt_node_locate from any start node with pos -3..6, "
    "name passed as exact-size heap copy without terminator / segment followed by other bytes / terminated / explicit UTF8 charset, result compared with the model list. "
    "exhaustive: {5 storage sizes, static initialiser} x previous content x new content (none, text 0,1,cap-1,cap,cap+1,cap+2,300, binary 1,max-1,max,max+1,max+2,300) x {set, copy from each of 5 storage sizes} x {plain, first library allocation fails} x {C, C++}. "
    "set from a range (prefix/suffix/middle/whole) of the identifier's own current data, all inline/external transitions. "
    "Allocation-failure injection (engine): a share of the steps runs set/set-binary/copy/creation with the k-th (1..3) library allocation failing: the call reports failure or succeeds completely, "
    "after a reported failure every identifier reads back exactly as before, nothing leaks. "
    "non-trivial: at least one identifier switched between inline and external storage (by what _len/_max say after the operation); distinct by hash of the draw sequence.",
    run,
    {600, 1500},
    false,
    true,
    {{"storage x previous length x new length x set/copy x api", enum_count, enum_make},
     {"node lists <= 3 x start x pos x key x argument form (mpt_node_locate)", enum_locate_count, enum_locate_make}},
    0,
    0,
};
Target &vp::target() { return t; }
