// C20 — layout object properties round-trip and do not interfere      vp-link: core io plot cxx
//
// G: flavour (C structs through mpt_*_set/get | C++ wrappers mpt::layout::* through the object
//    interface) x kind {axis,line,text,graph,world} x up to 3 objects x history (<= 24) of
//    set / reset / reset-all / copy. Property list taken from the object (get by position until
//    BadArgument); setter names (aliases, case variants) from the source; values: typed through a
//    harness convertable serving exactly one type, text through mpt_object_set_string (and the
//    mpt_convert_string convertable of examples/axis.c), "no value" (NULL text).
// O: snapshot of all listed properties of all objects before/after every step.
//    refused (ret < 0)  => every snapshot identical
//    accepted (ret >= 0)=> only the addressed property of the addressed object changed, and it reads
//                          back as the value given (where the value has one documented meaning);
//                          otherwise the read-back must not depend on the previous state
//    reset              => equals a freshly initialised object
//    copy               => equal properties, distinct string storage; everything finalised at the end
//    colour text        => printed (operator<<) and parsed again gives the same colour
#include "vp.hpp"
#include "mpt_layout_c.hpp"

#include <cfloat>
#include <cerrno>
#include <exception>
#include <sstream>

using namespace vp;

// ------------------------------------------------------------------------------------------------
// kinds, field kinds, setter names (from mptplot/layout/*_property.c)
enum Kind { KAxis, KLine, KText, KGraph, KWorld, NKind };
static const char *kKind[] = {"axis", "line", "text", "graph", "world"};

enum FK {
  FStr, FDouble, FFloat, FI16, FU8, FU32, FChar, FColor, FPoint01, FPointScale, FLattr,
  FIntv,   // axis intervals: uint8 count or the keyword "log"
  FAlign,  // graph align: uint8 or letters
  FClip,   // graph clip: uint8 bit mask, read back as "", "x", .. "xyz" below 8
  FGrid,   // graph grid: listed as uint8
  FTextX, FTextY  // text "x"/"y": components of the listed property "pos"
};

struct NameEnt {
  const char *name;   // name understood by the setter
  const char *canon;  // listed property it addresses
  FK fk;
  bool ci;            // setter compares case-insensitively
};

static const NameEnt kAxisNames[] = {
    {"title", "title", FStr, true},        {"begin", "begin", FDouble, true},       {"end", "end", FDouble, true},
    {"tlen", "tlen", FFloat, true},        {"int", "intervals", FIntv, true},       {"intv", "intervals", FIntv, true},
    {"intervals", "intervals", FIntv, true}, {"exp", "exponent", FI16, true},       {"exponent", "exponent", FI16, true},
    {"sub", "subtick", FU8, true},         {"subtick", "subtick", FU8, true},       {"dec", "decimals", FU8, true},
    {"decimals", "decimals", FU8, true},   {"lpos", "lpos", FChar, true},           {"labelpos", "lpos", FChar, true},
    {"label position", "lpos", FChar, true}, {"tpos", "tpos", FChar, true},         {"titlepos", "tpos", FChar, true},
    {"title position", "tpos", FChar, true}};
static const NameEnt kLineNames[] = {
    {"x1", "x1", FFloat, false},       {"x2", "x2", FFloat, false},       {"y1", "y1", FFloat, false},
    {"y2", "y2", FFloat, false},       {"color", "color", FColor, true},  {"width", "width", FLattr, true},
    {"style", "style", FLattr, true},  {"symbol", "symbol", FLattr, true}, {"size", "size", FLattr, true}};
static const NameEnt kTextNames[] = {
    {"value", "value", FStr, true},   {"font", "font", FStr, true},     {"x", "pos", FTextX, true},
    {"y", "pos", FTextY, true},       {"pos", "pos", FPoint01, true},   {"color", "color", FColor, true},
    {"size", "size", FU8, true},      {"align", "align", FChar, true},  {"angle", "angle", FDouble, true}};
static const NameEnt kGraphNames[] = {
    {"fg", "foreground", FColor, false},   {"foreground", "foreground", FColor, true}, {"bg", "background", FColor, false},
    {"background", "background", FColor, true}, {"pos", "pos", FPoint01, false},   {"position", "pos", FPoint01, true},
    {"scale", "scale", FPointScale, true}, {"grid", "grid", FGrid, false},         {"type", "grid", FGrid, false},
    {"gridtype", "grid", FGrid, true},     {"align", "align", FAlign, false},      {"alignment", "align", FAlign, true},
    {"clip", "clip", FClip, false},        {"clipping", "clip", FClip, true},      {"lpos", "lpos", FChar, false},
    {"axes", "axes", FStr, false},         {"worlds", "worlds", FStr, false}};
static const NameEnt kWorldNames[] = {
    {"cyc", "cycles", FU32, true},      {"cycles", "cycles", FU32, true},  {"color", "color", FColor, true},
    {"colour", "color", FColor, true},  {"alias", "alias", FStr, true},    {"width", "width", FLattr, true},
    {"style", "style", FLattr, true},   {"sym", "symbol", FLattr, true},   {"symbol", "symbol", FLattr, true},
    {"size", "size", FLattr, true}};

struct KindInfo {
  const NameEnt *names;
  size_t nnames;
  int prefix;  // length of the unique prefix mpt_*_get matches (-1: full name only)
};
static const KindInfo kInfo[NKind] = {
    {kAxisNames, sizeof kAxisNames / sizeof *kAxisNames, 3},   {kLineNames, sizeof kLineNames / sizeof *kLineNames, -1},
    {kTextNames, sizeof kTextNames / sizeof *kTextNames, -1},  {kGraphNames, sizeof kGraphNames / sizeof *kGraphNames, 2},
    {kWorldNames, sizeof kWorldNames / sizeof *kWorldNames, 3}};

static const int kVecChar = 'c' - 0x60 + 0x40;  // MPT_type_toVector('c')
static const char *kClipNames[8] = {"", "x", "y", "xy", "z", "xz", "yz", "xyz"};

// ------------------------------------------------------------------------------------------------
// objects of both flavours behind one set of operations
struct Obj {
  virtual ~Obj() {}
  virtual int get(mpt::property *pr) = 0;
  virtual int set(const char *name, mpt::convertable *src) = 0;
  virtual mpt::object *object() = 0;            // object interface for mpt_object_set_string
  virtual int assign_type() = 0;                // type id the generic assignment asks for
  virtual bool by_value() = 0;                  // generic assignment copies the struct itself (line)
  virtual const void *data() = 0;               // the plain struct
  virtual mpt::convertable *as_source() = 0;    // C++ flavour: the object itself is a convertable
  virtual Obj *clone() = 0;                     // C++ flavour: metatype clone()
  virtual void destroy() = 0;
};

// ---- C flavour: exact-size heap block, harness object interface in front of it
template <typename T> struct COps;
template <> struct COps<mpt::axis> {
  static void init(mpt::axis *o) { mpt::mpt_axis_init(o, 0); }
  static void fini(mpt::axis *o) { mpt::mpt_axis_fini(o); }
  static int get(const mpt::axis *o, mpt::property *p) { return mpt::mpt_axis_get(o, p); }
  static int set(mpt::axis *o, const char *n, mpt::convertable *s) { return mpt::mpt_axis_set(o, n, s); }
  static int type() { return mpt::mpt_axis_pointer_typeid(); }
  enum { ByValue = 0 };
};
template <> struct COps<mpt::line> {
  static void init(mpt::line *o) { mpt::mpt_line_init(o); }
  static void fini(mpt::line *) {}
  static int get(const mpt::line *o, mpt::property *p) { return mpt::mpt_line_get(o, p); }
  static int set(mpt::line *o, const char *n, mpt::convertable *s) { return mpt::mpt_line_set(o, n, s); }
  static int type() { return mpt::mpt_line_typeid(); }
  enum { ByValue = 1 };
};
template <> struct COps<mpt::text> {
  static void init(mpt::text *o) { mpt::mpt_text_init(o, 0); }
  static void fini(mpt::text *o) { mpt::mpt_text_fini(o); }
  static int get(const mpt::text *o, mpt::property *p) { return mpt::mpt_text_get(o, p); }
  static int set(mpt::text *o, const char *n, mpt::convertable *s) { return mpt::mpt_text_set(o, n, s); }
  static int type() { return mpt::mpt_text_pointer_typeid(); }
  enum { ByValue = 0 };
};
template <> struct COps<mpt::graph> {
  static void init(mpt::graph *o) { mpt::mpt_graph_init(o, 0); }
  static void fini(mpt::graph *o) { mpt::mpt_graph_fini(o); }
  static int get(const mpt::graph *o, mpt::property *p) { return mpt::mpt_graph_get(o, p); }
  static int set(mpt::graph *o, const char *n, mpt::convertable *s) { return mpt::mpt_graph_set(o, n, s); }
  static int type() { return mpt::mpt_graph_pointer_typeid(); }
  enum { ByValue = 0 };
};
template <> struct COps<mpt::world> {
  static void init(mpt::world *o) { mpt::mpt_world_init(o, 0); }
  static void fini(mpt::world *o) { mpt::mpt_world_fini(o); }
  static int get(const mpt::world *o, mpt::property *p) { return mpt::mpt_world_get(o, p); }
  static int set(mpt::world *o, const char *n, mpt::convertable *s) { return mpt::mpt_world_set(o, n, s); }
  static int type() { return mpt::mpt_world_pointer_typeid(); }
  enum { ByValue = 0 };
};

template <typename T>
struct CObjT : Obj {
  CObject head;  // must stay the first data member used as interface
  T *st;
  static int c_property(const CObject *o, mpt::property *pr) {
    const CObjT *me = reinterpret_cast<const CObjT *>(reinterpret_cast<const char *>(o) - offsetof(CObjT, head));
    return COps<T>::get(me->st, pr);
  }
  static int c_set_property(CObject *o, const char *name, mpt::convertable *src) {
    CObjT *me = reinterpret_cast<CObjT *>(reinterpret_cast<char *>(o) - offsetof(CObjT, head));
    return COps<T>::set(me->st, name, src);
  }
  CObjT() {
    static const CObjectVptr vt = {c_property, c_set_property};
    head.vptr = &vt;
    st = (T *)malloc(sizeof(T));
    memset((void *)st, 0xA5, sizeof(T));  // "uninitialized axis data": init must set every member
    COps<T>::init(st);
  }
  int get(mpt::property *pr) override { return COps<T>::get(st, pr); }
  int set(const char *name, mpt::convertable *src) override { return COps<T>::set(st, name, src); }
  mpt::object *object() override { return head.iface(); }
  int assign_type() override { return COps<T>::type(); }
  bool by_value() override { return COps<T>::ByValue; }
  const void *data() override { return st; }
  mpt::convertable *as_source() override { return 0; }
  Obj *clone() override { return 0; }
  void destroy() override {
    COps<T>::fini(st);
    free(st);
    delete this;
  }
};

// ---- C++ flavour: the wrappers of libmpt++ (metatype + object + plain struct)
template <typename W, typename T>
struct XObjT : Obj {
  W *w;
  XObjT() : w(new W()) {}
  explicit XObjT(W *from) : w(from) {}
  Obj *clone() override { W *n = w->clone(); return n ? new XObjT(n) : 0; }
  int get(mpt::property *pr) override { return static_cast<mpt::object *>(w)->property(pr); }
  int set(const char *name, mpt::convertable *src) override { return static_cast<mpt::object *>(w)->set_property(name, src); }
  mpt::object *object() override { return static_cast<mpt::object *>(w); }
  int assign_type() override { return COps<T>::type(); }
  bool by_value() override { return COps<T>::ByValue; }
  const void *data() override { return static_cast<T *>(w); }
  mpt::convertable *as_source() override { return static_cast<mpt::convertable *>(w); }
  void destroy() override {
    w->unref();
    delete this;
  }
};

// Creation-time state that no listed property shows. variant 0 = plain (mpt_*_init / default constructor); 1..3:
//  axis   direction bits of axis.format: AxisStyleX/Y/Z, set the way mpt::axis(AxisFlags) does (C struct),
//         by layout::graph::axis(AxisFlags) or by item_group::create("xaxis"|"yaxis"|"zaxis") (wrappers, by_name)
//  graph  frame (legend border type), text weight/style: public members without any setter, written directly
// by_name (wrappers only): the object comes from item_group::create(<type name>) like the items of a layout file.
static Obj *make_obj(int flavour, int kind, int variant = 0, bool by_name = false) {
  Obj *o = 0;
  void *st = 0;
  if (flavour == 0) {
    switch (kind) {
      case KAxis: o = new CObjT<mpt::axis>(); break;
      case KLine: o = new CObjT<mpt::line>(); break;
      case KText: o = new CObjT<mpt::text>(); break;
      case KGraph: o = new CObjT<mpt::graph>(); break;
      default: o = new CObjT<mpt::world>(); break;
    }
    st = const_cast<void *>(o->data());
    if (variant && kind == KAxis) static_cast<mpt::axis *>(st)->format = variant & 0x3;
  } else if (by_name) {
    static const char *axes[] = {"axis", "xaxis", "yaxis", "zaxis"};
    mpt::item_group grp;
    mpt::metatype *mt = grp.create(kind == KAxis ? axes[variant & 3] : kKind[kind]);
    switch (kind) {
      case KAxis: if (auto *w = dynamic_cast<mpt::layout::graph::axis *>(mt)) o = new XObjT<mpt::layout::graph::axis, mpt::axis>(w); break;
      case KLine: if (auto *w = dynamic_cast<mpt::layout::line *>(mt)) o = new XObjT<mpt::layout::line, mpt::line>(w); break;
      case KText: if (auto *w = dynamic_cast<mpt::layout::text *>(mt)) o = new XObjT<mpt::layout::text, mpt::text>(w); break;
      case KGraph: if (auto *w = dynamic_cast<mpt::layout::graph *>(mt)) o = new XObjT<mpt::layout::graph, mpt::graph>(w); break;
      default: if (auto *w = dynamic_cast<mpt::layout::graph::world *>(mt)) o = new XObjT<mpt::layout::graph::world, mpt::world>(w); break;
    }
    if (!o) { if (mt) mt->unref(); return 0; }
    st = const_cast<void *>(o->data());
  } else {
    switch (kind) {
      case KAxis: o = variant ? new XObjT<mpt::layout::graph::axis, mpt::axis>(new mpt::layout::graph::axis((mpt::AxisFlags)(variant & 3)))
                              : new XObjT<mpt::layout::graph::axis, mpt::axis>(); break;
      case KLine: o = new XObjT<mpt::layout::line, mpt::line>(); break;
      case KText: o = new XObjT<mpt::layout::text, mpt::text>(); break;
      case KGraph: o = new XObjT<mpt::layout::graph, mpt::graph>(); break;
      default: o = new XObjT<mpt::layout::graph::world, mpt::world>(); break;
    }
    st = const_cast<void *>(o->data());
  }
  if (variant && kind == KGraph) static_cast<mpt::graph *>(st)->frame = (uint8_t)variant;
  if (variant && kind == KText) { static_cast<mpt::text *>(st)->weight = "nbl"[variant % 3]; static_cast<mpt::text *>(st)->style = "nio"[variant % 3]; }
  return o;
}

// ------------------------------------------------------------------------------------------------
// raw state: every member of the plain struct (no padding), pointer members by pointee
struct Member { const char *name; size_t off, size; bool ptr; };
#define MEMB(T, m) {#m, offsetof(mpt::T, m), sizeof(((mpt::T *)0)->m), false}
#define MPTR(T, m) {#m, offsetof(mpt::T, m), sizeof(void *), true}
#define MSUB(T, m, s, o, z) {#m "." #s, offsetof(mpt::T, m) + (o), (z), false}
static const Member kAxisMemb[] = {MPTR(axis, _title), MEMB(axis, begin), MEMB(axis, end), MEMB(axis, tlen), MEMB(axis, exp), MEMB(axis, intv), MEMB(axis, sub),
                                   MEMB(axis, format), MEMB(axis, dec), MEMB(axis, lpos), MEMB(axis, tpos)};
static const Member kLineMemb[] = {MEMB(line, color), MSUB(line, attr, style, offsetof(mpt::lineattr, style), 1), MSUB(line, attr, width, offsetof(mpt::lineattr, width), 1),
                                   MSUB(line, attr, symbol, offsetof(mpt::lineattr, symbol), 1), MSUB(line, attr, size, offsetof(mpt::lineattr, size), 1),
                                   MSUB(line, from, x, 0, 4), MSUB(line, from, y, 4, 4), MSUB(line, to, x, 0, 4), MSUB(line, to, y, 4, 4)};
static const Member kTextMemb[] = {MPTR(text, _value), MPTR(text, _font), MEMB(text, color), MEMB(text, size), MEMB(text, weight), MEMB(text, style), MEMB(text, align),
                                   MSUB(text, pos, x, 0, 4), MSUB(text, pos, y, 4, 4), MEMB(text, angle)};
static const Member kGraphMemb[] = {MPTR(graph, _axes), MPTR(graph, _worlds), MEMB(graph, fg), MEMB(graph, bg), MEMB(graph, pos), MEMB(graph, scale), MEMB(graph, grid),
                                    MEMB(graph, align), MEMB(graph, frame), MEMB(graph, clip), MEMB(graph, lpos)};
static const Member kWorldMemb[] = {MPTR(world, _alias), MEMB(world, color), MSUB(world, attr, style, offsetof(mpt::lineattr, style), 1), MSUB(world, attr, width, offsetof(mpt::lineattr, width), 1),
                                    MSUB(world, attr, symbol, offsetof(mpt::lineattr, symbol), 1), MSUB(world, attr, size, offsetof(mpt::lineattr, size), 1), MEMB(world, cyc)};
struct MembList { const Member *m; size_t n; };
static const MembList kMemb[NKind] = {{kAxisMemb, sizeof kAxisMemb / sizeof *kAxisMemb}, {kLineMemb, sizeof kLineMemb / sizeof *kLineMemb}, {kTextMemb, sizeof kTextMemb / sizeof *kTextMemb},
                                      {kGraphMemb, sizeof kGraphMemb / sizeof *kGraphMemb}, {kWorldMemb, sizeof kWorldMemb / sizeof *kWorldMemb}};

// members a property is documented to control (from the unchanged setters); "format" of axis: only the TransformLg bit
struct Control { int kind; const char *canon; const char *members; };
static const Control kControl[] = {
    {KAxis, "title", "_title"}, {KAxis, "begin", "begin"}, {KAxis, "end", "end"}, {KAxis, "tlen", "tlen"}, {KAxis, "exponent", "exp"},
    {KAxis, "intervals", "intv format"}, {KAxis, "subtick", "sub"}, {KAxis, "decimals", "dec"}, {KAxis, "lpos", "lpos"}, {KAxis, "tpos", "tpos"},
    {KLine, "color", "color"}, {KLine, "x1", "from.x"}, {KLine, "x2", "to.x"}, {KLine, "y1", "from.y"}, {KLine, "y2", "to.y"},
    {KLine, "width", "attr.width"}, {KLine, "style", "attr.style"}, {KLine, "symbol", "attr.symbol"}, {KLine, "size", "attr.size"},
    {KText, "value", "_value"}, {KText, "font", "_font"}, {KText, "pos", "pos.x pos.y"}, {KText, "color", "color"}, {KText, "size", "size"},
    {KText, "align", "align"}, {KText, "angle", "angle"},
    {KGraph, "axes", "_axes"}, {KGraph, "worlds", "_worlds"}, {KGraph, "foreground", "fg"}, {KGraph, "background", "bg"}, {KGraph, "pos", "pos"},
    {KGraph, "scale", "scale"}, {KGraph, "grid", "grid"}, {KGraph, "align", "align"}, {KGraph, "clip", "clip"}, {KGraph, "lpos", "lpos"},
    {KWorld, "color", "color"}, {KWorld, "cycles", "cyc"}, {KWorld, "width", "attr.width"}, {KWorld, "style", "attr.style"}, {KWorld, "symbol", "attr.symbol"},
    {KWorld, "size", "attr.size"}, {KWorld, "alias", "_alias"}};
static const uint8_t kAxisLg = 0x20;  // MPT_ENUM(TransformLg)

typedef std::vector<std::string> Raw;  // one entry per member: hex bytes, or the string behind a pointer member
static Raw raw_state(int kind, Obj *o) {
  Raw r;
  const uint8_t *base = (const uint8_t *)o->data();
  for (size_t i = 0; i < kMemb[kind].n; i++) {
    const Member &m = kMemb[kind].m[i];
    if (m.ptr) { const char *s; memcpy(&s, base + m.off, sizeof s); r.push_back(s ? std::string("\"") + s + "\"" : std::string("(null)")); }
    else r.push_back(hex(base + m.off, m.size, 16));
  }
  return r;
}
static bool member_listed(int kind, const char *member, const char *only_canon = 0, FK fk = FStr) {
  for (const Control &k : kControl) {
    if (k.kind != kind || (only_canon && strcmp(k.canon, only_canon))) continue;
    std::string list = std::string(" ") + k.members + " ";
    if (only_canon && fk == FTextX) list = " pos.x ";
    if (only_canon && fk == FTextY) list = " pos.y ";
    if (list.find(std::string(" ") + member + " ") != std::string::npos) return true;
  }
  return false;
}
// first member that differs although it may not: allowed(member) says which members are free to change
template <typename F> static std::string raw_diff(int kind, const Raw &a, const Raw &b, F allowed) {
  for (size_t i = 0; i < kMemb[kind].n; i++) {
    const char *name = kMemb[kind].m[i].name;
    if (a[i] == b[i]) continue;
    if (kind == KAxis && !strcmp(name, "format")) {  // direction and other bits apart from the log flag
      unsigned x = strtoul(a[i].c_str(), 0, 16), y = strtoul(b[i].c_str(), 0, 16);
      if (allowed(name) && ((x ^ y) & ~kAxisLg) == 0) continue;
      return std::string("member format: ") + a[i] + " -> " + b[i] + (allowed(name) ? " (bits other than the log flag)" : "");
    }
    if (allowed(name)) continue;
    return std::string("member ") + name + ": " + a[i].substr(0, 60) + " -> " + b[i].substr(0, 60);
  }
  return "";
}

// ------------------------------------------------------------------------------------------------
// harness convertables
struct TypedConv : CConv {  // serves exactly one type
  int type;                 // 0: a source without value (every conversion reports 0, nothing written)
  std::vector<uint8_t> data;
  int asked;
  static int convert(CConv *c, mpt::type_t t, void *dest) {
    TypedConv *me = static_cast<TypedConv *>(c);
    ++me->asked;
    if (!t) {
      static uint8_t fmt[2];
      fmt[0] = (uint8_t)me->type;
      if (dest) { *(const uint8_t **)dest = fmt; return 0; }
      return me->type;
    }
    if (!me->type) return 0;
    if ((int)t != me->type) return mpt::BadType;
    if (dest) memcpy(dest, me->data.data(), me->data.size());
    return me->type;
  }
  TypedConv() : type(0), asked(0) {
    static const CConvVptr vt = {convert};
    vptr = &vt;
  }
};
struct StringConv : CConv {  // the convertable of examples/axis.c: mpt_convert_string on a text
  const char *txt;
  static int convert(CConv *c, mpt::type_t t, void *dest) { return mpt::mpt_convert_string(static_cast<StringConv *>(c)->txt, t, dest); }
  StringConv() : txt(0) {
    static const CConvVptr vt = {convert};
    vptr = &vt;
  }
};

// ------------------------------------------------------------------------------------------------
// values
enum Mode { MTyped, MValue, MSetString, MConvString, MNoValue, MIter };  // MValue: typed value through mpt_object_set_value (library converts)
enum Sem { SNone, SInt, SReal, SChar, SString, SColor, SPoint, SLetters, SLog, SKey };
struct Value {
  Mode mode = MTyped;
  int type = 0;                 // MTyped: served type id
  std::vector<uint8_t> bytes;   // MTyped: raw value ('s': filled at apply time)
  std::string text;             // text modes, and content of typed 's' / vector 'c'
  bool null_string = false;     // typed 's' with NULL pointer
  bool iter_direct = false;     // MIter: the iterator metatype itself is the source (else mpt_object_set_iterator)
  bool vec_with_nul = false;    // vector 'c' length includes the terminator (as mpt_convert_string does)
  Sem sem = SNone;
  bool clean = false;           // text is exactly one literal of the stated meaning
  long double num = 0;          // SInt/SReal/SChar: the number denoted (exact)
  bool isnan = false;
  bool was_float = false;       // typed 'f': num is exactly a float
  uint8_t rgba[4] = {0, 0, 0, 255};
  int npoint = 0;               // SPoint: number of coordinates
  std::string ptext[2];         // SPoint from text: the two literals
  float pt[2] = {0, 0};         // SPoint typed
  std::string describe() const;
};

static std::string printable(const std::string &s, size_t max = 48) {
  std::string o = "\"";
  for (size_t i = 0; i < s.size() && i < max; i++) {
    unsigned char ch = s[i];
    char b[8];
    if (ch >= 0x20 && ch < 0x7f && ch != '"' && ch != '\\') o += (char)ch;
    else { snprintf(b, sizeof b, "\\x%02x", ch); o += b; }
  }
  o += "\"";
  if (s.size() > max) o += "...(" + std::to_string(s.size()) + ")";
  return o;
}
std::string Value::describe() const {
  char b[96];
  switch (mode) {
    case MSetString: return "text " + printable(text);
    case MConvString: return "text(convert_string) " + printable(text);
    case MNoValue: return "no value (NULL text)";
    case MIter: return "next element(s) of the shared iterator";
    default: break;
  }
  if (type == 'k') return "typed 'k' (keyword) " + printable(text);
  if (mode == MValue) { Value t = *this; t.mode = MTyped; return "mpt_object_set_value: " + t.describe(); }
  if (type == 's') return null_string ? std::string("typed 's' NULL") : "typed 's' " + printable(text);
  if (type == kVecChar) return std::string("typed vector 'c' ") + (vec_with_nul ? "(+NUL) " : "") + printable(text);
  if (type > 0 && type < 128) snprintf(b, sizeof b, "typed '%c' %s", type, hex(bytes.data(), bytes.size()).c_str());
  else snprintf(b, sizeof b, "typed id %d %s", type, hex(bytes.data(), bytes.size()).c_str());
  std::string r = b;
  if (sem == SInt || sem == SReal || sem == SChar) { snprintf(b, sizeof b, " (= %.21Lg)", num); r += isnan ? " (= nan)" : b; }
  return r;
}

// canonical rendering of numbers by listed type -----------------------------------------------
static std::string ren_f(float f) {
  if (f != f) return "f:nan";
  uint32_t u; memcpy(&u, &f, 4);
  char b[48]; snprintf(b, sizeof b, "f:%08x(%g)", u, f);
  return b;
}
static std::string ren_d(double d) {
  if (d != d) return "d:nan";
  uint64_t u; memcpy(&u, &d, 8);
  char b[64]; snprintf(b, sizeof b, "d:%016llx(%g)", (unsigned long long)u, d);
  return b;
}
static std::string ren_int(char t, long long v) {
  char b[40]; snprintf(b, sizeof b, "%c:%lld", t, v);
  return b;
}
static std::string ren_col(const uint8_t *argb) {  // struct color: alpha, red, green, blue
  char b[32]; snprintf(b, sizeof b, "col:r%02x g%02x b%02x a%02x", argb[1], argb[2], argb[3], argb[0]);
  return b;
}
static std::string ren_pt(float x, float y) { return "pt:" + ren_f(x) + "," + ren_f(y); }

static int g_color_id, g_fpoint_id, g_lattr_id;

// a listed property as read from the object
struct Prop {
  std::string name;
  long type;
  std::string val;      // canonical rendering
  const char *strptr;   // 's': storage address
};
typedef std::vector<Prop> Snapshot;

static FK fk_of(int kind, const std::string &canon) {
  for (size_t i = 0; i < kInfo[kind].nnames; i++)
    if (canon == kInfo[kind].names[i].canon) return kInfo[kind].names[i].fk;
  return FStr;
}

static std::string render(Ctx &c, int kind, const char *name, long type, const void *addr, const char **strptr) {
  if (strptr) *strptr = 0;
  VP_CHECK(c, addr, "get-no-address", "%s.%s: property value has no address (type %ld)", kKind[kind], name, type);
  FK fk = fk_of(kind, name);
  if (type == 's') {
    const char *s = *(const char *const *)addr;
    if (strptr) *strptr = s;
    if (fk == FIntv && s && !strncmp(s, "log", 3)) return "log";
    if (fk == FClip) {
      for (int i = 0; i < 8; i++) if (!strcmp(s ? s : "", kClipNames[i])) return ren_int('y', i);
    }
    return std::string("s:") + (s ? s : "");
  }
  if (type == 'c') return ren_int('c', *(const unsigned char *)addr);
  if (type == 'y') return ren_int('y', *(const uint8_t *)addr);
  if (type == 'n') { int16_t v; memcpy(&v, addr, 2); return ren_int('n', v); }
  if (type == 'u') { uint32_t v; memcpy(&v, addr, 4); return ren_int('u', v); }
  if (type == 'f') { float v; memcpy(&v, addr, 4); return ren_f(v); }
  if (type == 'd') { double v; memcpy(&v, addr, 8); return ren_d(v); }
  if (type == g_color_id) return ren_col((const uint8_t *)addr);
  if (type == g_fpoint_id) { float v[2]; memcpy(v, addr, 8); return ren_pt(v[0], v[1]); }
  c.fail("get-bad-type", "%s.%s: listed property reports type %ld, which is no value type of the layout structs", kKind[kind], name, type);
}

static int get_pos(Obj *o, size_t pos, mpt::property &pr) {
  memset((void *)&pr, 0, sizeof pr);
  pr.name = 0;
  pr.desc = (const char *)(uintptr_t)pos;
  return o->get(&pr);
}

// the property list comes from the object: positions 0.. until BadArgument
static Snapshot snapshot(Ctx &c, int kind, Obj *o) {
  Snapshot s;
  for (size_t pos = 0; pos < 64; pos++) {
    CObj<mpt::property> pr;
    int r = get_pos(o, pos, *pr);
    if (r == mpt::BadArgument) break;
    VP_CHECK(c, r >= 0, "get-listed-fails", "%s: reading listed property #%zu (%s) returns %d", kKind[kind], pos, pr->name ? pr->name : "?", r);
    VP_CHECK(c, pr->name && *pr->name, "get-no-name", "%s: property #%zu has no name", kKind[kind], pos);
    Prop p;
    p.name = pr->name;
    p.type = (long)pr->val._type;
    p.val = render(c, kind, pr->name, p.type, pr->val._addr, &p.strptr);
    s.push_back(p);
  }
  VP_CHECK(c, !s.empty(), "list-empty", "%s lists no property", kKind[kind]);
  return s;
}
static int find_prop(const Snapshot &s, const std::string &name) {
  for (size_t i = 0; i < s.size(); i++) if (s[i].name == name) return (int)i;
  return -1;
}
static std::string diff(const Snapshot &a, const Snapshot &b, int except = -1) {
  if (a.size() != b.size()) return "number of listed properties differs";
  for (size_t i = 0; i < a.size(); i++) {
    if ((int)i == except) continue;
    if (a[i].name != b[i].name) return "name of #" + std::to_string(i) + " " + a[i].name + " -> " + b[i].name;
    if (a[i].val != b[i].val) return a[i].name + ": " + printable(a[i].val, 80) + " -> " + printable(b[i].val, 80);
  }
  return "";
}

// ------------------------------------------------------------------------------------------------
// expectation: what the addressed property must read after an accepted set
struct Expect {
  bool known = false;
  std::string val;   // canonical rendering (a rendering starting with '!' can never be read back)
  std::string why;
  bool must_accept = false;  // the unchanged setter has an explicit path for this value (modelled from the code): refusing it fails too
};

// number -> rendering in the listed type; exact or (floating targets) correctly rounded, finite stays finite
static std::string num_as(long type, const Value &v) {
  char b[96];
  long double x = v.num;
  bool integral = !v.isnan && x == floorl(x) && fabsl(x) < 1e19L;
  snprintf(b, sizeof b, "!no %c holds %.21Lg", (int)type, x);
  if (v.isnan && type != 'f' && type != 'd') return "!no integer holds nan";
  switch (type) {
    case 'c': return integral && x >= -128 && x <= 255 ? ren_int('c', (unsigned char)(long long)x) : b;
    case 'y': return integral && x >= 0 && x <= 255 ? ren_int('y', (long long)x) : b;
    case 'n': return integral && x >= -32768 && x <= 32767 ? ren_int('n', (long long)x) : b;
    case 'u': return integral && x >= 0 && x <= 4294967295.0L ? ren_int('u', (long long)x) : b;
    case 'f': {
      if (v.isnan) return "f:nan";
      float f = (float)x;  // single rounding from the exact value
      if (std::isinf(f) && !std::isinf(x)) return b;
      return ren_f(f);
    }
    case 'd': {
      if (v.isnan) return "d:nan";
      double d = (double)x;
      if (std::isinf(d) && !std::isinf(x)) return b;
      return ren_d(d);
    }
  }
  return b;
}
// text literal -> rendering for floating targets through libc on the whole literal
static std::string text_as_float(long type, const std::string &t, bool &ok) {
  char *end = 0;
  errno = 0;
  ok = true;
  if (type == 'f') {
    float f = strtof(t.c_str(), &end);
    if (*end) ok = false;
    if (std::isinf(f) && errno == ERANGE) return "!no f holds " + t;
    return ren_f(f);
  }
  double d = strtod(t.c_str(), &end);
  if (*end) ok = false;
  if (std::isinf(d) && errno == ERANGE) return "!no d holds " + t;
  return ren_d(d);
}

static bool typed(const Value &v) { return v.mode == MTyped || v.mode == MValue; }
static bool is_text(const Value &v) { return v.mode == MSetString || v.mode == MConvString || (typed(v) && v.type == 's' && !v.null_string); }
static bool is_numeric_typed(const Value &v) { return typed(v) && (v.sem == SInt || v.sem == SReal || v.sem == SChar) ; }

static Expect expect_numeric(long ltype, const Value &v) {
  Expect e;
  if (typed(v) && v.type == 'c' && v.num >= 128 && ltype != 'c') return e;  // plain char: sign is the platform's choice
  if (is_numeric_typed(v)) {
    e.known = true;
    e.val = num_as(ltype, v);
    e.why = "the number given";
    return e;
  }
  if (is_text(v)) {
    if (v.clean && (v.sem == SInt || v.sem == SReal)) {
      e.known = true;
      if (ltype == 'f' || ltype == 'd') {
        bool ok;
        e.val = text_as_float(ltype, v.text, ok);
        if (!ok) e.known = false;
      } else if (v.sem == SInt) e.val = num_as(ltype, v);
      else e.known = false;  // real literal for an integer field: prefix semantics are not C20's business
      e.why = "the number the text denotes";
      return e;
    }
    if (v.sem == SLetters && v.clean) {  // pure letters denote no number
      e.known = true;
      e.val = "!text denotes no number";
      e.why = "text is not a number";
    }
    return e;
  }
  if (typed(v) && v.type) {  // colour, point, pointer, vector .. for a scalar field
    e.known = true;
    e.val = "!value of a foreign type";
    e.why = "value type has no meaning for the property";
  }
  return e;
}

static std::string cur_component(const std::string &ptval, int idx) {  // "pt:<x>,<y>"
  size_t comma = ptval.find(',');
  if (ptval.compare(0, 3, "pt:") || comma == std::string::npos) return "?";
  return idx == 0 ? ptval.substr(3, comma - 3) : ptval.substr(comma + 1);
}

static Expect expectation_(int kind, FK fk, long ltype, const Value &v, const std::string &oldval);
static Expect expectation(int kind, FK fk, long ltype, const Value &v, const std::string &oldval) {
  Expect e = expectation_(kind, fk, ltype, v, oldval);
  // mpt_object_set_value converts between types on its own (char -> one character string, ...):
  // only number -> number has one meaning there
  if (v.mode == MValue && e.known && e.val[0] == '!' && !(is_numeric_typed(v) && e.why == "the number given")) e.known = false;
  return e;
}
static Expect expectation_(int kind, FK fk, long ltype, const Value &v, const std::string &oldval) {
  Expect e;
  if (v.mode == MNoValue || (v.mode == MTyped && !v.type)) return e;  // unknown: state independence only
  if (typed(v) && v.type == 's' && v.null_string && fk != FStr) return e;  // NULL string: a source without value
  switch (fk) {
    case FStr:
      if (is_text(v) || (typed(v) && v.type == kVecChar)) { e.known = true; e.val = "s:" + v.text; e.why = "the text given"; }
      else if (typed(v) && v.type == 's') { e.known = true; e.val = "s:"; e.why = "NULL string"; }
      else { e.known = true; e.val = "!not a string"; e.why = "value is no text"; }
      return e;
    case FDouble: case FFloat: case FI16: case FU8: case FU32: case FLattr:
      return expect_numeric(ltype, v);
    case FGrid:
      if (typed(v) && v.sem == SChar) { e.known = true; e.val = num_as(ltype, v); e.why = "the byte given"; return e; }
      return expect_numeric(ltype, v);
    case FTextX: case FTextY: {
      Expect n = expect_numeric('f', v);
      if (!n.known) return n;
      if (n.val[0] == '!') return n;
      e.known = true;
      e.why = n.why + " in one coordinate";
      e.val = fk == FTextX ? "pt:" + n.val + "," + cur_component(oldval, 1) : "pt:" + cur_component(oldval, 0) + "," + n.val;
      return e;
    }
    case FChar:
      if (typed(v) && v.type == 'c') { e.known = true; e.val = num_as('c', v); e.why = "the character given"; }
      else if (v.mode == MSetString || v.mode == MConvString) {
        // text through mpt_convert_string: 'c' takes the first visible character if it is 7-bit printable
        // (mpt_convert_number: isgraph), BadType otherwise; the axis setPosition() then converts as keyword 'k' and
        // stores the first byte of the keyword (UTF-8 lead byte, Latin-1, control character)
        size_t i = 0;
        while (i < v.text.size() && isspace((unsigned char)v.text[i])) ++i;
        if (i < v.text.size()) {
          unsigned char fb = v.text[i];
          if ((fb > 0x20 && fb < 0x7f) || kind == KAxis) {
            e.known = true; e.val = ren_int('c', fb);
            e.why = (fb > 0x20 && fb < 0x7f) ? "the first visible character of the text" : "the first byte of the keyword (axis position fallback)";
            e.must_accept = kind == KAxis;  // setPosition(): 'c', then the keyword conversion 'k'; text always offers one of them
          }
        }
      }
      else if (v.mode == MTyped && v.type == 'k' && kind == KAxis) {  // setPosition(): *val = *s
        e.known = true; e.val = ren_int('c', v.text.empty() ? 0 : (unsigned char)v.text[0]); e.why = "the first byte of the keyword served"; e.must_accept = true;
      }
      else if (is_text(v) && v.sem == SChar && v.clean) { e.known = true; e.val = num_as('c', v); e.why = "the single character of the text"; }
      else if (typed(v) && !is_text(v) && v.sem != SInt && v.sem != SChar) { e.known = true; e.val = "!value of a foreign type"; e.why = "value type has no meaning for the property"; }
      return e;
    case FColor:
      if (typed(v) && v.type == g_color_id) { e.known = true; e.val = ren_col(v.bytes.data()); e.why = "the colour given"; }
      else if (is_text(v)) {
        if (v.sem == SColor && v.clean) { uint8_t argb[4] = {v.rgba[3], v.rgba[0], v.rgba[1], v.rgba[2]}; e.known = true; e.val = ren_col(argb); e.why = "the colour the text names"; }
      } else if (typed(v) && v.type != 's') { e.known = true; e.val = "!not a colour"; e.why = "value is no colour"; }
      return e;
    case FPoint01: case FPointScale:
      if (typed(v) && v.type == g_fpoint_id) { e.known = true; e.val = ren_pt(v.pt[0], v.pt[1]); e.why = "the point given"; }
      else if (is_text(v) && v.sem == SPoint && v.clean) {
        bool ok0, ok1;
        std::string x = text_as_float('f', v.ptext[0], ok0), y = text_as_float('f', v.ptext[v.npoint > 1 ? 1 : 0], ok1);
        if (ok0 && ok1) {
          e.known = true; e.why = "the coordinates the text denotes";
          e.val = (x[0] == '!' || y[0] == '!') ? "!coordinate beyond float" : "pt:" + x + "," + y;
        }
      } else if (typed(v) && v.type != 's') { e.known = true; e.val = "!not a point"; e.why = "value is no point"; }
      return e;
    case FIntv:
      if (is_text(v) && v.sem == SLog) { e.known = true; e.val = "log"; e.why = "keyword log"; return e; }
      return expect_numeric(ltype == 's' ? 'y' : ltype, v);
    case FAlign:
      if (is_text(v) && v.sem == SLetters) return e;  // letter code: mapping not documented
      e = expect_numeric(ltype, v);
      // text that is no uint8 goes to the letter parser, which skips characters it does not know by design
      if (is_text(v) && e.known && e.val[0] == '!') e.known = false;
      return e;
    case FClip:
      if (is_text(v) && v.sem == SLetters) {
        bool xyz = !v.text.empty();
        int n = 0;
        for (char ch : v.text) { if (ch == 'x') n |= 1; else if (ch == 'y') n |= 2; else if (ch == 'z') n |= 4; else xyz = false; }
        if (xyz) { e.known = true; e.val = ren_int('y', n); e.why = "the axes the text names"; }
        return e;
      }
      e = expect_numeric('y', v);
      if (is_text(v) && e.known && e.val[0] == '!') e.known = false;  // letter parser: unknown characters set bit 8 by design
      return e;
  }
  return e;
}

// ------------------------------------------------------------------------------------------------
// value generation
static std::string gen_string(Ctx &c, size_t maxlen) {
  size_t len = c.near({0, 1, 2, 7, 8, 15, 16, 17, 31, 32, 255, 256, 1023, 1024, 4095, 4096, 5000}, maxlen);
  if (len >= 4095) c.label("string:len>=4095");
  else if (len >= 255) c.label("string:len>=255");
  else if (!len) c.label("string:empty");
  static const char alpha[] = "abcXYZ019 _-.;=#{}\t\xc3\xb6";
  unsigned seed = c.u8(), step = 1 + c.pick(7);
  std::string s(len, 'a');
  for (size_t i = 0; i < len; i++) s[i] = alpha[(seed + i * step + i / 17) % (sizeof alpha - 1)];
  return s;
}
static long long gen_int(Ctx &c) {
  static const long long B[] = {0, 1, 5, 8, 10, 20, 127, 128, 255, 256, 32767, 32768, 65535, 65536, 2147483647LL, 2147483648LL, 4294967295LL, 4294967296LL, 1LL << 40};
  switch (c.weighted({4, 5, 2, 1})) {
    case 0: return (long long)c.pick(24);
    case 1: { long long v = B[c.pick(sizeof B / sizeof *B)] + (long long)c.pick(3) - 1; return c.chance(64) ? -v : v; }
    case 2: return (long long)c.u8();
    default: { long long v = (long long)(c.u64() >> 2); return c.flip() ? -v : v; }
  }
}
static double gen_double(Ctx &c) {
  static const double B[] = {0.0, -0.0, 1.0, -1.0, 0.3, 0.5, 0.25, 0.75, 1.5, 2.0, 10.0, 70.0, 1e-310, 1e-40, 3.4028234663852886e38, 3.5e38, 1e39, 1e300,
                             DBL_MAX, -DBL_MAX, DBL_MIN, HUGE_VAL, -HUGE_VAL, NAN, 16777217.0, 0.1, 1.0 / 3};
  switch (c.weighted({5, 3, 2})) {
    case 0: return B[c.pick(sizeof B / sizeof *B)];
    case 1: return ((double)c.pick(65) - 16) / 32.0;
    default: { uint64_t u = c.u64(); double d; memcpy(&d, &u, 8); return d; }
  }
}
static float gen_float(Ctx &c) {
  static const float B[] = {0.0f, -0.0f, 1.0f, -1.0f, 0.3f, 0.5f, 0.25f, 1.0f / 3, FLT_MAX, -FLT_MAX, FLT_MIN, 1e-42f, HUGE_VALF, -HUGE_VALF, NAN, 2.0f, 1.0000001f};
  switch (c.weighted({5, 3, 2})) {
    case 0: return B[c.pick(sizeof B / sizeof *B)];
    case 1: return ((float)c.pick(65) - 16) / 32.0f;
    default: { uint32_t u = c.u32(); float f; memcpy(&f, &u, 4); return f; }
  }
}
static std::string fmt_real(Ctx &c, double d) {
  char b[64];
  switch (c.pick(3)) {
    case 0: snprintf(b, sizeof b, "%.17g", d); break;
    case 1: snprintf(b, sizeof b, "%g", d); break;
    default: snprintf(b, sizeof b, "%.3f", fabs(d) < 1e15 ? d : 0.5); break;
  }
  return b;
}

template <typename T> static void put(std::vector<uint8_t> &b, const T &v) { b.resize(sizeof v); memcpy(b.data(), &v, sizeof v); }

static Value typed_int(Ctx &c, int type) {
  Value v; v.mode = MTyped; v.type = type; v.sem = SInt;
  long long x = gen_int(c);
  switch (type) {
    case 'y': { uint8_t t = (uint8_t)x; put(v.bytes, t); v.num = t; break; }
    case 'b': { int8_t t = (int8_t)x; put(v.bytes, t); v.num = t; break; }
    case 'n': { int16_t t = (int16_t)x; put(v.bytes, t); v.num = t; break; }
    case 'q': { uint16_t t = (uint16_t)x; put(v.bytes, t); v.num = t; break; }
    case 'i': { int32_t t = (int32_t)x; put(v.bytes, t); v.num = t; break; }
    case 'u': { uint32_t t = (uint32_t)x; put(v.bytes, t); v.num = t; break; }
    case 'x': { int64_t t = (int64_t)x; put(v.bytes, t); v.num = t; break; }
    default: { uint64_t t = (uint64_t)x; v.type = 't'; put(v.bytes, t); v.num = t; break; }
  }
  return v;
}
static Value typed_double(Ctx &c) {
  Value v; v.mode = MTyped; v.type = 'd'; v.sem = SReal;
  double d = gen_double(c);
  put(v.bytes, d); v.num = d; v.isnan = d != d;
  return v;
}
static Value typed_float(Ctx &c) {
  Value v; v.mode = MTyped; v.type = 'f'; v.sem = SReal; v.was_float = true;
  float f = gen_float(c);
  put(v.bytes, f); v.num = f; v.isnan = f != f;
  return v;
}
static Value typed_char(Ctx &c) {
  Value v; v.mode = MTyped; v.type = 'c'; v.sem = SChar;
  uint8_t fb = c.u8();  // bit 0: table / any byte (was a flip); bits 1+2 both set: a source that offers the keyword type 'k' only
  unsigned char ch = (fb & 1) ? (unsigned char)"0123456789nbxyzBEZ"[c.pick(18)] : c.u8();
  put(v.bytes, ch); v.num = ch;
  if ((fb & 6) == 6) {
    v.type = 'k'; v.sem = SKey; v.bytes.clear();
    v.text = ch ? std::string(1, (char)ch) + "p" : std::string();
  }
  return v;
}
static Value typed_color(Ctx &c) {
  Value v; v.mode = MTyped; v.type = g_color_id; v.sem = SColor;
  v.bytes.resize(4);
  for (int i = 0; i < 4; i++) v.bytes[i] = c.flip() ? c.u8() : (uint8_t)(c.flip() ? 0 : 255);
  return v;
}
static Value typed_point(Ctx &c, bool in01) {
  Value v; v.mode = MTyped; v.type = g_fpoint_id; v.sem = SPoint; v.npoint = 2;
  for (int i = 0; i < 2; i++) v.pt[i] = in01 && c.chance(192) ? (float)c.pick(33) / 32.0f : gen_float(c);
  v.bytes.resize(8); memcpy(v.bytes.data(), v.pt, 8);
  return v;
}
static Value typed_string(Ctx &c, size_t maxlen) {
  Value v; v.mode = MTyped; v.sem = SString;
  switch (c.weighted({5, 4, 1})) {
    case 0: v.type = 's'; v.text = gen_string(c, maxlen); break;
    case 1: v.type = kVecChar; v.text = gen_string(c, maxlen); v.vec_with_nul = c.flip(); break;
    default: v.type = 's'; v.null_string = true; break;
  }
  return v;
}
static Value typed_foreign(Ctx &c) {
  switch (c.pick(9)) {
    case 0: return typed_int(c, "ybnqiuxt"[c.pick(8)]);
    case 1: return typed_double(c);
    case 2: return typed_float(c);
    case 3: return typed_char(c);
    case 4: return typed_color(c);
    case 5: return typed_point(c, false);
    case 6: return typed_string(c, 40);
    case 7: { Value v; v.mode = MTyped; v.type = g_lattr_id; v.bytes = c.bytes(4); return v; }
    default: { Value v; v.mode = MTyped; v.type = 0; return v; }  // source without value
  }
}
static Mode text_mode(Ctx &c) { return c.chance(64) ? MConvString : MSetString; }

static Value text_int(Ctx &c) {
  Value v; v.mode = text_mode(c); v.sem = SInt; v.clean = true;
  long long x = gen_int(c);
  v.num = x;
  v.text = std::to_string(x);
  if (x >= 0 && c.chance(16)) v.text = "+" + v.text;
  return v;
}
static Value text_real(Ctx &c) {
  Value v; v.mode = text_mode(c); v.sem = SReal; v.clean = true;
  double d = c.flip() ? gen_double(c) : (double)gen_float(c);
  if (d != d || std::isinf(d)) d = 0.5;  // "nan"/"inf" spellings are C07's business
  v.text = fmt_real(c, d);
  v.num = strtold(v.text.c_str(), 0);
  return v;
}
static Value text_garbage(Ctx &c) {
  Value v; v.mode = text_mode(c);
  switch (c.pick(5)) {
    case 0: v.text = ""; break;
    case 1: v.text = " "; break;
    case 2: { static const char *w[] = {"abc", "lag", "none", "q", "xyzzy", "Zq"}; v.text = w[c.pick(6)]; v.sem = SLetters; v.clean = true; break; }
    case 3: v.text = std::to_string(c.pick(300)) + "abc"; break;
    default: v.text = gen_string(c, 40); break;
  }
  return v;
}
static Value text_char(Ctx &c) {
  Value v; v.mode = text_mode(c); v.sem = SChar;
  uint8_t pb = c.u8();  // % 21: table (was a pick); / 21 = 0..12: what stands in front of it
  char ch = "0123456789nbxyzBEZ+-#"[pb % 21];
  v.text = std::string(1, ch);
  switch (pb / 21) {
    case 7: v.text = " " + v.text; break;
    case 8: v.text = " \t " + v.text; break;
    case 9: v.text = "\xe2\x86\x91" + v.text; break;          // UTF-8 arrow
    case 10: v.text = "\xb0" + v.text; break;                  // Latin-1 degree
    case 11: v.text = ((pb & 1) ? "\x01" : "\x1b") + v.text; break;  // control character
    case 12: v.text = "  \xe2\x86\x92" + v.text; break;       // blanks, then UTF-8
    default: break;
  }
  v.num = (unsigned char)ch;
  v.clean = v.text.size() == 1;
  if (c.chance(40)) { v.text += gen_string(c, 5); v.clean = v.text.size() == 1; }
  return v;
}
static Value text_color(Ctx &c) {
  static const struct { const char *name; uint8_t rgb[3]; } N[] = {{"black", {0, 0, 0}}, {"red", {255, 0, 0}}, {"green", {0, 255, 0}}, {"blue", {0, 0, 255}},
      {"cyan", {0, 255, 255}}, {"magenta", {255, 0, 255}}, {"yellow", {255, 255, 0}}, {"white", {255, 255, 255}}};
  Value v; v.mode = text_mode(c); v.sem = SColor;
  switch (c.weighted({4, 6, 2, 2})) {
    case 0: {  // documented names, any case
      size_t i = c.pick(8);
      v.text = N[i].name;
      unsigned up = c.u8();
      for (size_t k = 0; k < v.text.size(); k++) if (up >> (k % 8) & 1) v.text[k] = (char)toupper(v.text[k]);
      memcpy(v.rgba, N[i].rgb, 3); v.rgba[3] = 255; v.clean = true;
      break;
    }
    case 1: {  // #rrggbb / #rrggbbaa
      int n = c.flip() ? 3 : 4;
      bool upper = c.flip();
      v.text = "#";
      v.rgba[3] = 255;
      for (int i = 0; i < n; i++) {
        v.rgba[i] = c.flip() ? c.u8() : (uint8_t)(c.flip() ? 0 : 255);
        char b[4]; snprintf(b, sizeof b, upper ? "%02X" : "%02x", v.rgba[i]);
        v.text += b;
      }
      v.clean = true;
      break;
    }
    case 2: {  // other digit counts
      size_t n = c.pick(11);
      v.text = "#";
      for (size_t i = 0; i < n; i++) v.text += "0123456789abcdefABCDEFg-x "[c.pick(26)];
      break;
    }
    default: {  // name with something behind it, unknown names
      static const char *w[] = {"red ", "red x", "redx", "blu", "grey", "white\t", "#", "0", "255", "ff0000"};
      v.text = w[c.pick(10)];
      break;
    }
  }
  return v;
}
static Value text_point(Ctx &c, bool in01) {
  Value v; v.mode = text_mode(c); v.sem = SPoint;
  v.npoint = (int)c.weighted({1, 3, 6, 1});
  std::string t;
  for (int i = 0; i < v.npoint; i++) {
    double d = in01 && c.chance(192) ? (double)c.pick(33) / 32.0 : (double)gen_float(c);
    if (d != d || std::isinf(d)) d = 0.25;
    std::string lit = fmt_real(c, d);
    if (i < 2) v.ptext[i] = lit;
    t += (i ? " " : "") + lit;
  }
  v.text = t;
  v.clean = v.npoint == 1 || v.npoint == 2;
  return v;
}
static Value text_letters(Ctx &c, const char *set) {
  Value v; v.mode = text_mode(c); v.sem = SLetters; v.clean = true;
  size_t n = 1 + c.pick(4), ns = strlen(set);
  for (size_t i = 0; i < n; i++) v.text += set[c.pick(ns)];
  return v;
}
static Value text_log(Ctx &c) {
  Value v; v.mode = text_mode(c); v.sem = SLog; v.clean = true;
  static const char *w[] = {"log", "LOG", "Log", "log10", "logarithmic"};
  v.text = w[c.pick(5)];
  return v;
}
static Value text_string(Ctx &c) {
  Value v; v.mode = text_mode(c); v.sem = SString; v.clean = true;
  v.text = gen_string(c, 5000);
  return v;
}
static Value no_value() { Value v; v.mode = MNoValue; return v; }

static Value gen_value_(Ctx &c, FK fk);
static Value gen_value(Ctx &c, FK fk) {
  Value v = gen_value_(c, fk);
  if (v.mode == MTyped && v.type && c.chance(56) && v.type != 'k') v.mode = MValue;  // 'k' is no value type of mpt_value_convert
  return v;
}
static Value gen_value_(Ctx &c, FK fk) {
  // 0: fitting typed, 1: fitting text, 2: other numeric typed, 3: foreign typed, 4: garbage text, 5: no value
  // one byte: % 23 = weighted {8,8,2,2,2,1} value class; / 23 >= 7 for pos/scale (about 1 of 3), == 11 elsewhere (1 of 85): the step
  // takes the next element(s) of the long-lived iterator the case shares between its sets instead of a value of its own
  uint8_t vb = c.u8();
  unsigned vr = vb % 23;
  size_t cls = vr < 8 ? 0 : vr < 16 ? 1 : vr < 18 ? 2 : vr < 20 ? 3 : vr < 22 ? 4 : 5;
  bool pointprop = fk == FPoint01 || fk == FPointScale;  // the properties that take their value from an iterator
  if (pointprop ? vb / 23 >= 7 : vb / 23 == 11) { Value v; v.mode = MIter; v.iter_direct = (vb / 23) % 2 == 0; return v; }
  if (cls == 3) return typed_foreign(c);
  if (cls == 4) return text_garbage(c);
  if (cls == 5) return no_value();
  if (cls == 2) return c.flip() ? typed_int(c, "ybnqiuxt"[c.pick(8)]) : (c.flip() ? typed_double(c) : typed_float(c));
  bool text = cls == 1;
  switch (fk) {
    case FStr: return text ? text_string(c) : typed_string(c, 5000);
    case FDouble: return text ? (c.chance(64) ? text_int(c) : text_real(c)) : typed_double(c);
    case FFloat: case FTextX: case FTextY: return text ? (c.chance(64) ? text_int(c) : text_real(c)) : (c.chance(64) ? typed_double(c) : typed_float(c));
    case FI16: return text ? text_int(c) : typed_int(c, 'n');
    case FU8: return text ? text_int(c) : typed_int(c, 'y');
    case FU32: return text ? text_int(c) : typed_int(c, 'u');
    case FLattr: return text ? text_int(c) : typed_int(c, c.chance(80) ? 'i' : 'y');
    case FChar: return text ? text_char(c) : typed_char(c);
    case FColor: return text ? text_color(c) : typed_color(c);
    case FPoint01: return text ? text_point(c, true) : typed_point(c, true);
    case FPointScale: return text ? text_point(c, false) : typed_point(c, false);
    case FIntv: return text ? (c.flip() ? text_log(c) : text_int(c)) : typed_int(c, 'y');
    case FAlign: return text ? (c.flip() ? text_letters(c, "bezBEZ") : text_int(c)) : typed_int(c, 'y');
    case FClip: return text ? (c.chance(160) ? text_letters(c, "xyz") : text_int(c)) : typed_int(c, 'y');
    case FGrid: return text ? text_int(c) : (c.flip() ? typed_char(c) : typed_int(c, 'y'));
  }
  return no_value();
}

// ------------------------------------------------------------------------------------------------
// applying a value
// attr: the value goes through a C++ object::attribute already selected by name (obj[name] = value): the attribute
// sets under the name the getter resolved; result 0 accepted / BadValue dropped (the C++ interface has no error code)
static int apply(Obj *o, const char *name, const Value &v, mpt::object::attribute *attr = 0) {
  struct Attr {
    static int named(mpt::object::attribute *a) { return static_cast<const mpt::property &>(*a).name ? 0 : (int)mpt::BadValue; }
  };
  switch (v.mode) {
    case MSetString:
      if (attr) { *attr = v.text.c_str(); return Attr::named(attr); }
      return mpt::mpt_object_set_string(o->object(), name, v.text.c_str(), 0);
    case MNoValue:
      if (attr) { *attr = (const char *)0; return Attr::named(attr); }
      return mpt::mpt_object_set_string(o->object(), name, 0, 0);
    case MConvString: {
      std::unique_ptr<char[]> own(new char[v.text.size() + 1]);  // exact-size copy: the library must not keep it
      memcpy(own.get(), v.text.c_str(), v.text.size() + 1);
      StringConv sc; sc.txt = own.get();
      if (attr) return attr->set(*sc.iface()) ? 0 : (int)mpt::BadValue;
      return o->set(name, sc.iface());
    }
    default: break;
  }
  TypedConv tc; tc.type = v.type; tc.data = v.bytes;
  std::unique_ptr<char[]> own;
  struct Fin {  // MValue: the same bytes as a struct value handed to mpt_object_set_value
    static int value(Obj *o, const char *name, const Value &v, const std::vector<uint8_t> &data) {
      CObj<mpt::value> val;
      val->_type = (mpt::type_t)v.type;
      val->_addr = data.data();
      return mpt::mpt_object_set_value(o->object(), name, val);
    }
  };
  if (v.type == 's' || v.type == 'k') {
    const char *p = 0;
    if (!v.null_string) { own.reset(new char[v.text.size() + 1]); memcpy(own.get(), v.text.c_str(), v.text.size() + 1); p = own.get(); }
    put(tc.data, p);
  } else if (v.type == kVecChar) {
    own.reset(new char[v.text.size() + 1]); memcpy(own.get(), v.text.c_str(), v.text.size() + 1);
    struct iovec vec = {own.get(), v.text.size() + (v.vec_with_nul ? 1 : 0)};
    put(tc.data, vec);
  }
  if (attr) {
    if (v.mode != MValue) return attr->set(*tc.iface()) ? 0 : (int)mpt::BadValue;
    CObj<mpt::value> val;
    val->_type = (mpt::type_t)v.type;
    val->_addr = tc.data.data();
    return attr->set(*val.get()) ? 0 : (int)mpt::BadValue;
  }
  if (v.mode == MValue) return Fin::value(o, name, v, tc.data);
  return o->set(name, tc.iface());
}

// Names the unchanged setters accept and the unchanged getters refuse (observed asymmetries, modelled): the getters match
// the first 3 (axis, world) / 2 (graph) characters against the listed names only, text matches "x"/"y" by exact case.
static bool get_refusal_modelled(int kind, const std::string &name) {
  if (kind == KGraph) return name == "fg" || name == "bg" || name == "type";
  if (kind == KAxis) return !strcasecmp(name.c_str(), "labelpos") || !strcasecmp(name.c_str(), "label position");
  if (kind == KText) return name == "X" || name == "Y";
  return false;
}

static std::string case_variant(Ctx &c, const NameEnt &ne) {
  std::string n = ne.name;
  if (ne.ci && c.chance(48)) {
    unsigned m = c.u8() | 1;
    for (size_t i = 0; i < n.size(); i++) if (m >> (i % 8) & 1) n[i] = (char)toupper(n[i]);
  }
  return n;
}

struct QuietLogger : mpt::logger {  // a logger that keeps the messages to itself
  int messages = 0;
  int log(const char *, int, const char *, va_list) override { ++messages; return 0; }
};

// ------------------------------------------------------------------------------------------------
struct World_ {  // everything a case owns
  int flavour, kind;
  std::vector<Obj *> objs;
  // one iterator source (mpt_iterator_string) that lives across the set steps of the case: model = elements + cursor
  CMeta *shared = 0;
  CIter *shared_it = 0;
  std::vector<std::string> elems;
  size_t cursor = 0;
  bool range_refused = false;  // an earlier pair of this iterator was refused by a range check
  // after an oracle failure the objects are left alone (forked child): finalising e.g. two objects that share a
  // string would replace the oracle's verdict by the sanitizer's
  ~World_() { if (std::uncaught_exceptions()) return; for (Obj *o : objs) if (o) o->destroy(); if (shared) shared->vptr->unref(shared); }
};

static void check_listing(Ctx &c, int kind, const Snapshot &s) {
  // every canonical name of the setter table is listed, every listed name is in the table
  for (size_t i = 0; i < kInfo[kind].nnames; i++)
    VP_CHECK(c, find_prop(s, kInfo[kind].names[i].canon) >= 0, "setter-name-not-listed", "%s: setter knows \"%s\" (-> %s) but the object does not list %s",
             kKind[kind], kInfo[kind].names[i].name, kInfo[kind].names[i].canon, kInfo[kind].names[i].canon);
  for (const Prop &p : s) {
    bool found = false;
    for (size_t i = 0; i < kInfo[kind].nnames; i++) if (p.name == kInfo[kind].names[i].name) found = true;
    VP_CHECK(c, found, "harness-table", "%s lists \"%s\" which the harness table does not know", kKind[kind], p.name.c_str());
  }
}

// reading by name (full name, unique prefix as matched by the getter) gives the property read by position
static void check_named_get(Ctx &c, int kind, Obj *o, const Snapshot &s) {
  for (size_t i = 0; i < s.size(); i++) {
    std::vector<std::string> names = {s[i].name};
    int pl = kInfo[kind].prefix;
    if (pl > 0 && (int)s[i].name.size() > pl) names.push_back(s[i].name.substr(0, pl));
    std::string up = s[i].name;
    for (auto &ch : up) ch = (char)toupper(ch);
    names.push_back(up);
    for (const std::string &n : names) {
      CObj<mpt::property> pr;
      pr->name = n.c_str();
      int r = o->get(pr);
      VP_CHECK(c, r >= 0, "get-by-name-fails", "%s: reading \"%s\" (listed as %s) returns %d", kKind[kind], n.c_str(), s[i].name.c_str(), r);
      VP_CHECK(c, pr->name && s[i].name == pr->name, "get-by-name-other", "%s: reading \"%s\" gives property %s, expected %s", kKind[kind], n.c_str(), pr->name ? pr->name : "(null)", s[i].name.c_str());
      std::string val = render(c, kind, pr->name, (long)pr->val._type, pr->val._addr, 0);
      VP_CHECK(c, val == s[i].val, "get-by-name-value", "%s: reading \"%s\" gives %s, by position %s", kKind[kind], n.c_str(), printable(val, 80).c_str(), printable(s[i].val, 80).c_str());
    }
  }
}

// text also answers to "x" and "y": the coordinates of the listed property "pos"
static void check_text_xy(Ctx &c, int kind, Obj *o, const Snapshot &s) {
  int pi = find_prop(s, "pos");
  if (kind != KText || pi < 0) return;
  for (int i = 0; i < 2; i++) {
    CObj<mpt::property> pr;
    pr->name = i ? "y" : "x";
    int r = o->get(pr);
    VP_CHECK(c, r >= 0, "get-by-name-fails", "text: reading \"%s\" returns %d", pr->name, r);
    VP_CHECK(c, (long)pr->val._type == 'f' && pr->val._addr, "get-bad-type", "text: \"%s\" has type %ld", i ? "y" : "x", (long)pr->val._type);
    float f; memcpy(&f, pr->val._addr, 4);
    VP_CHECK(c, ren_f(f) == cur_component(s[pi].val, i), "get-by-name-value", "text: \"%s\" reads %s, pos is %s", i ? "y" : "x", ren_f(f).c_str(), s[pi].val.c_str());
  }
}

// a name the setter just accepted addresses the same property when it is read: get(name) resolves to the canonical
// property (text "x"/"y": the coordinate) with the value read by position, or is one of the modelled refusals
static void check_get_same_name(Ctx &c, int kind, Obj *o, const std::string &name, FK fk, const Prop &now, const char *what) {
  CObj<mpt::property> pr;
  pr->name = name.c_str();
  int r = o->get(pr);
  if (r < 0) {
    VP_CHECK(c, get_refusal_modelled(kind, name), "set-name-unknown-to-get", "%s: the setter accepts the name %s (-> %s) but reading by that name returns %d", what, printable(name).c_str(), now.name.c_str(), r);
    c.label("get:alias-refused-modelled");
    return;
  }
  std::string want = fk == FTextX ? "x" : fk == FTextY ? "y" : now.name;
  VP_CHECK(c, pr->name && want == pr->name, "get-by-name-other", "%s: reading %s gives property %s, the setter addresses %s under that name", what, printable(name).c_str(), pr->name ? pr->name : "(null)", want.c_str());
  std::string val, exp = now.val;
  if (fk == FTextX || fk == FTextY) {
    VP_CHECK(c, (long)pr->val._type == 'f' && pr->val._addr, "get-bad-type", "%s: text %s has type %ld", what, want.c_str(), (long)pr->val._type);
    float f; memcpy(&f, pr->val._addr, 4);
    val = ren_f(f); exp = cur_component(now.val, fk == FTextY);
  } else val = render(c, kind, pr->name, (long)pr->val._type, pr->val._addr, 0);
  VP_CHECK(c, val == exp, "get-by-name-value", "%s: reading %s gives %s, the property reads %s by position", what, printable(name).c_str(), printable(val, 80).c_str(), printable(exp, 80).c_str());
  c.label(name == now.name ? "get:same-name-canonical" : "get:same-name-alias-or-case");
}

// colour printed with operator<< and parsed again is the same colour
static void check_color_print(Ctx &c, int kind, const char *name, const mpt::color &col) {
  std::ostringstream os;
  os << col;
  std::string txt = os.str();
  CObj<mpt::color> back;
  int r = mpt::mpt_color_parse(back, txt.c_str());
  c.logf("    colour prints as %s, parses with %d", printable(txt).c_str(), r);
  VP_CHECK(c, r >= 0, "color-print-parse", "%s.%s: colour printed as %s is refused by mpt_color_parse (%d)", kKind[kind], name, printable(txt).c_str(), r);
  VP_CHECK(c, ren_col((const uint8_t *)back.get()) == ren_col((const uint8_t *)&col), "color-print-parse", "%s.%s: colour %s printed as %s parses as %s", kKind[kind], name,
           ren_col((const uint8_t *)&col).c_str(), printable(txt).c_str(), ren_col((const uint8_t *)back.get()).c_str());
}

static void run_history(Ctx &c, int flavour, int kind, int variant, bool by_name) {
  g_color_id = mpt::mpt_color_typeid();
  g_fpoint_id = mpt::mpt_fpoint_typeid();
  g_lattr_id = mpt::mpt_lattr_typeid();
  VP_CHECK(c, g_color_id > 0 && g_fpoint_id > 0 && g_lattr_id > 0, "no-type-id", "type registration failed (%d %d %d)", g_color_id, g_fpoint_id, g_lattr_id);

  World_ w;
  w.flavour = flavour; w.kind = kind;
  // one byte: % 9 = weighted {3,4,2} number of objects; / 9 = 0..28: 0 no pre-step, else a name-less (auto-select) set on
  // object #0 BEFORE anything was read in this process (fork per case: the type tables the getters fill lazily are untouched)
  uint8_t ob = c.u8();
  size_t nobj = 1 + ((ob % 9) < 3 ? 0 : (ob % 9) < 7 ? 1 : 2);
  unsigned pre = ob / 9;
  if (pre == 4 || pre == 8) pre = 0;  // keeps two committed corpus inputs (object-count bytes 0x27, 0x4b) exactly as they were
  for (size_t i = 0; i < nobj; i++) {
    // typed cases: the objects get different creation-time state (axis directions x/y/z in turn)
    Obj *o = make_obj(flavour, kind, variant ? (int)((variant - 1 + i) % 3) + 1 : 0, by_name);
    VP_CHECK(c, o, "create-by-name-null", "item_group::create() gives no %s", kKind[kind]);
    w.objs.push_back(o);
  }
  c.logf("flavour=%s kind=%s objects=%zu", flavour ? "c++ wrapper" : "C struct", kKind[kind], nobj);
  if (variant || by_name) c.logf("creation: %s%s", variant ? "typed (axis direction / graph frame / text weight+style set at creation)" : "plain", by_name && flavour ? ", through item_group::create(type name)" : "");
  if (variant) c.label("create:typed");
  if (by_name && flavour) c.label("create:by-type-name");
  Raw raw_default;
  { Obj *plain = make_obj(flavour, kind); raw_default = raw_state(kind, plain); plain->destroy(); }
  std::vector<Raw> raws(nobj);
  for (size_t i = 0; i < nobj; i++) raws[i] = raw_state(kind, w.objs[i]);
  if (variant && kind == KAxis)
    for (size_t i = 0; i < nobj; i++) {
      unsigned f = static_cast<const mpt::axis *>(w.objs[i]->data())->format;
      VP_CHECK(c, f == ((variant - 1 + i) % 3) + 1, "create-axis-direction", "axis #%zu created as direction %zu has format 0x%02x", i, ((variant - 1 + i) % 3) + 1, f);
    }
  c.label(flavour ? "flavour:c++" : "flavour:c");
  c.label(kKind[kind]);

  // ---- pre-step: mpt_*_set(obj, NULL, <typed value>) selects the property by the type of the value; nothing was read yet
  int pre_ret = 0, pre_form = 0;
  std::vector<std::pair<std::string, std::string>> pre_expect;  // listed property -> rendering, when the unchanged code accepts
  bool pre_accept = false;
  if (pre) {
    pre_form = 1 + pre % 4;  // 1 colour, 2 line attributes, 3 string, 4 number
    TypedConv tc;
    std::string str = "auto" + std::to_string(pre);
    const char *sp = str.c_str();
    const char *desc = "";
    if (pre_form == 1) {
      uint8_t col[4] = {(uint8_t)(255 - pre), (uint8_t)(pre * 9), (uint8_t)(pre * 5), (uint8_t)pre};  // alpha, red, green, blue
      tc.type = g_color_id; tc.data.assign(col, col + 4); desc = "colour";
      const char *prop = kind == KGraph ? "foreground" : kind == KAxis ? 0 : "color";
      if (prop) { pre_accept = true; pre_expect.push_back({prop, ren_col(col)}); }
    } else if (pre_form == 2) {
      uint8_t la[4] = {(uint8_t)(pre % 6), (uint8_t)(pre % 11), (uint8_t)(pre % 9), (uint8_t)(pre % 21)};  // style, width, symbol, size
      tc.type = g_lattr_id; tc.data.assign(la, la + 4); desc = "line attributes";
      if (kind == KLine || kind == KWorld) {
        pre_accept = true;
        pre_expect = {{"style", ren_int('y', la[0])}, {"width", ren_int('y', la[1])}, {"symbol", ren_int('y', la[2])}, {"size", ren_int('y', la[3])}};
      }
    } else if (pre_form == 3) {
      tc.type = 's'; put(tc.data, sp); desc = "string";
      const char *prop = kind == KAxis ? "title" : kind == KText ? "value" : kind == KWorld ? "alias" : 0;
      if (prop) { pre_accept = true; pre_expect.push_back({prop, "s:" + str}); }
    } else { double d = pre; tc.type = 'd'; put(tc.data, d); desc = "double"; }
    pre_ret = w.objs[0]->set(0, tc.iface());
    c.logf("pre-step before any read: set %s#0 (no name) = %s -> returns %d; the unchanged setter %s", kKind[kind], desc, pre_ret, pre_accept ? "selects a property for it" : "has no property of that type");
    c.label("pre:auto-select");
    raws[0] = raw_state(kind, w.objs[0]);
  }
  std::vector<Snapshot> snap(nobj);
  for (size_t i = 0; i < nobj; i++) snap[i] = snapshot(c, kind, w.objs[i]);
  Snapshot fresh_;
  if (pre) { Obj *plain = make_obj(flavour, kind); fresh_ = snapshot(c, kind, plain); plain->destroy(); } else fresh_ = snap[0];
  const Snapshot fresh = fresh_;
  if (pre) {
    VP_CHECK(c, (pre_ret >= 0) == pre_accept, "auto-select-model", "name-less set of a %s value on a fresh %s before any read returns %d; the unchanged setter %s", 
             pre_form == 1 ? "colour" : pre_form == 2 ? "line attribute" : pre_form == 3 ? "string" : "double", kKind[kind], pre_ret, pre_accept ? "accepts it" : "refuses it");
    for (size_t i = 0; i < fresh.size(); i++) {
      std::string want = fresh[i].val;
      if (pre_accept) for (auto &e : pre_expect) if (e.first == fresh[i].name) want = e.second;
      VP_CHECK(c, snap[0][i].val == want, "auto-select-readback", "after the name-less set (returns %d) %s reads %s, expected %s", pre_ret, fresh[i].name.c_str(),
               printable(snap[0][i].val, 80).c_str(), printable(want, 80).c_str());
    }
    if (pre_accept) c.label("pre:auto-select-accepted");
  }
  check_listing(c, kind, fresh);
  if (c.verbose()) for (const Prop &p : fresh) c.logf("  lists %-12s type %-4ld default %s", p.name.c_str(), p.type, printable(p.val, 60).c_str());
  for (size_t i = pre ? 1 : 1; i < nobj; i++) { std::string d = diff(fresh, snap[i]); VP_CHECK(c, d.empty(), "fresh-objects-differ", "two freshly initialised %s objects differ: %s", kKind[kind], d.c_str()); }

  const KindInfo &ki = kInfo[kind];
  unsigned steps = 0, changed = 0;
  while (steps < 24 && c.more()) {
    ++steps;
    size_t t = nobj > 1 ? c.weighted({5, 2, 1}) % nobj : 0;
    Obj *o = w.objs[t];
    size_t op = c.weighted({12, 3, 1, nobj > 1 ? 3u : 0u});  // set, reset, reset all, copy
    int ret;
    std::string what;
    int target_prop = -1;        // index of the addressed listed property (-1: whole object)
    Expect ex;
    bool is_reset = false, is_copy = false, is_assign = false, assign_logger = false, unknown_name = false, reset_by_empty = false;
    size_t src = 0;
    Value val;
    std::string name;
    FK fk = FStr;

    if (op == 0 || op == 1) {
      // name: a setter name (alias, case variant), sometimes a prefix or junk
      // one byte: low nibble = weighted {14,1,1} name class, bits 4+5 both set (1 of 4) = through C++ obj[name] = value
      uint8_t nb = c.u8();
      size_t nsel = (nb & 15) < 14 ? 0 : (nb & 15) - 13;
      bool via_attr = (nb & 0x30) == 0x30;
      const NameEnt &ne = ki.names[c.pick(ki.nnames)];
      fk = ne.fk;
      if (nsel == 0) { name = case_variant(c, ne); target_prop = find_prop(fresh, ne.canon); }
      else if (nsel == 1) { name = std::string(ne.canon).substr(0, 1 + c.pick(strlen(ne.canon))); unknown_name = true;
        for (size_t i = 0; i < ki.nnames; i++) if (!strcasecmp(name.c_str(), ki.names[i].name)) { unknown_name = false; target_prop = find_prop(fresh, ki.names[i].canon); fk = ki.names[i].fk; } }
      else { static const char *junk[] = {"foo", "zz#", "titlex", " color", "x3", "colorr"}; name = junk[c.pick(6)]; unknown_name = true; }
      if (!ne.ci && nsel == 0 && c.chance(8)) {  // case variant of a case-sensitive name is another name
        std::string up = name; for (auto &ch : up) ch = (char)toupper(ch);
        if (up != name) { bool known = false; for (size_t i = 0; i < ki.nnames; i++) if (ki.names[i].ci ? !strcasecmp(up.c_str(), ki.names[i].name) : up == ki.names[i].name) known = true;
          if (!known) { name = up; unknown_name = true; target_prop = -1; } }
      }
      if (op == 0) {
        val = gen_value(c, fk);
        what = "set " + std::string(kKind[kind]) + "#" + std::to_string(t) + "." + printable(name) + " = " + val.describe();
        if (target_prop >= 0) ex = expectation(kind, fk, fresh[target_prop].type, val, snap[t][target_prop].val);
        c.logf("step %u: %s", steps, what.c_str());
        if (ex.known) c.logf("    if accepted must read %s (%s)", printable(ex.val, 80).c_str(), ex.why.c_str());
        if (val.mode == MIter) {
          // ---- shared iterator: created on first use (and again once used up)
          if (!w.shared || w.cursor >= w.elems.size()) {
            static const char *lit[] = {"0", "1", "0.5", "0.25", "0.75", "0.125", "0.0625", "0.375", "0.875", "1.0", "0.3", "1.5", "2.5", "-0.25", "3", "100"};
            if (w.shared) w.shared->vptr->unref(w.shared);
            w.elems.clear(); w.cursor = 0; w.range_refused = false;
            size_t n = 2 + c.pick(11);
            const char *sep = c.pick(3) == 0 ? "  " : " ";
            std::string txt;
            for (size_t i = 0; i < n; i++) { w.elems.push_back(lit[c.u8() % 16]); txt += (i ? sep : "") + w.elems.back(); }
            w.shared = reinterpret_cast<CMeta *>(mpt::mpt_iterator_string(txt.c_str(), 0));
            VP_CHECK(c, w.shared, "iterator-create", "mpt_iterator_string(%s) is NULL", printable(txt).c_str());
            w.shared_it = 0;
            int r = w.shared->vptr->convertable.convert(w.shared->conv(), mpt::TypeIteratorPtr, &w.shared_it);
            VP_CHECK(c, r >= 0 && w.shared_it, "iterator-create", "string iterator does not serve its iterator (%d)", r);
            c.logf("    new shared iterator over %s", printable(txt, 120).c_str());
            c.label("iter:created");
          }
          // ---- model: what the unchanged code consumes and stores (mpt_fpoint_set: two 'f' elements, MissingData when the
          // second is missing - the first is gone then -, range check after both; every other setter finds no type it can
          // use in an iterator source and consumes nothing)
          ex = Expect();
          bool point = target_prop >= 0 && (fk == FPoint01 || fk == FPointScale);
          bool direct = point && val.iter_direct;
          size_t rem = w.elems.size() - w.cursor, take = 0;
          bool accept = false;
          if (point) {
            take = rem >= 2 ? 2 : rem;
            if (rem >= 2) {
              float x = strtof(w.elems[w.cursor].c_str(), 0), y = strtof(w.elems[w.cursor + 1].c_str(), 0);
              float hi = fk == FPoint01 ? 1.0f : FLT_MAX;
              accept = !(x < 0 || y < 0 || x > hi || y > hi);
              ex.known = true; ex.val = ren_pt(x, y); ex.why = "the next two elements of the shared iterator"; ex.must_accept = accept;
            }
          }
          c.logf("    shared iterator at element %zu of %zu (%s), source is %s; model: takes %zu, %s", w.cursor, w.elems.size(),
                 rem ? w.elems[w.cursor].c_str() : "end", direct ? "the iterator metatype itself" : "mpt_object_set_iterator", take, accept ? "accepted" : "refused");
          ret = direct ? o->set(name.c_str(), reinterpret_cast<mpt::convertable *>(w.shared))
                       : mpt::mpt_object_set_iterator(o->object(), name.c_str(), w.shared_it->iface());
          VP_CHECK(c, (ret >= 0) == accept, "iterator-model", "%s returns %d; from element %zu (%s) of the shared iterator the unchanged setter %s", what.c_str(), ret, w.cursor,
                   rem ? w.elems[w.cursor].c_str() : "end", accept ? "stores the pair" : point ? (rem < 2 ? "finds no pair" : "refuses the pair (range)") : "takes nothing (no usable type)");
          w.cursor += take;
          // where the iterator stands now
          const mpt::value *cur = w.shared_it->vptr->value(w.shared_it);
          if (w.cursor >= w.elems.size())
            VP_CHECK(c, !cur, "iterator-cursor", "%s: the shared iterator should be used up after %zu elements, it still has a value", what.c_str(), w.cursor);
          else {
            const char *rest = 0;
            CConv *ec = cur && cur->_addr ? *reinterpret_cast<CConv *const *>(cur->_addr) : 0;
            int r = ec ? ec->vptr->convert(ec, 's', &rest) : -1;
            const std::string &want = w.elems[w.cursor];
            bool ok = r >= 0 && rest && !strncmp(rest, want.c_str(), want.size()) && (!rest[want.size()] || rest[want.size()] == ' ');
            VP_CHECK(c, ok, "iterator-cursor", "%s: the shared iterator should stand at element %zu (%s), it stands at %s", what.c_str(), w.cursor, want.c_str(),
                     rest ? printable(rest, 40).c_str() : "nothing");
          }
          if (point && accept) { c.label("iter:pair-accepted"); if (w.range_refused) c.label("iter:pair-accepted-after-range-refusal"); }
          else if (point && rem >= 2) { c.label("iter:pair-range-refused"); w.range_refused = true; }
          else if (point) c.label("iter:pair-missing");
          else c.label("iter:no-point-property");
        } else if (via_attr && !unknown_name && target_prop >= 0) {
          // C++ path: object::operator[] selects the property through property(name), the assignment sets under the
          // resolved name. The name is one the setter knows, so the selection must find the same property.
          mpt::object::attribute at = (*o->object())[name.c_str()];
          const char *sel = static_cast<const mpt::property &>(at).name;
          const char *want = fk == FTextX ? "x" : fk == FTextY ? "y" : fresh[target_prop].name.c_str();
          c.logf("    through obj[%s]: selects %s", printable(name).c_str(), sel ? sel : "nothing");
          c.label("set:via-attribute");
          if (!sel) {
            VP_CHECK(c, get_refusal_modelled(kind, name), "set-name-unknown-to-get", "%s: obj[%s] selects nothing although the setter knows the name (-> %s)", what.c_str(), printable(name).c_str(), want);
            c.label("get:alias-refused-modelled");
            ex.must_accept = false;  // nothing selected: the assignment is dropped before the setter sees the value
          } else
            VP_CHECK(c, !strcmp(sel, want), "get-by-name-other", "%s: obj[%s] selects property %s, the setter addresses %s under that name", what.c_str(), printable(name).c_str(), sel, want);
          ret = apply(o, name.c_str(), val, &at);
        } else
        ret = apply(o, name.c_str(), val);
      } else {
        is_reset = true;
        what = "reset " + std::string(kKind[kind]) + "#" + std::to_string(t) + "." + printable(name);
        if (nb & 0x40) {
          // the reset form of configuration input: a source whose text is empty ('s' conversion answers 0) handed to
          // mpt_object_set_property(), which passes it on as mpt_object_set_string(obj, name, NULL)
          what += " (mpt_object_set_property with an empty text source)";
          c.logf("step %u: %s", steps, what.c_str());
          char empty[1] = {0};
          StringConv sc; sc.txt = empty;
          mpt::identifier id;
          id.set_name(name.c_str());
          ret = mpt::mpt_object_set_property(o->object(), mpt::TraverseChange | mpt::TraverseDefault, &id, sc.iface());
          reset_by_empty = true;
          c.label("reset:empty-text-source");
        } else {
        c.logf("step %u: %s", steps, what.c_str());
        ret = o->set(name.c_str(), 0);
        }
      }
    } else if (op == 2) {
      is_reset = true;
      what = "reset all of " + std::string(kKind[kind]) + "#" + std::to_string(t) + " (name \"\", no value)";
      c.logf("step %u: %s", steps, what.c_str());
      ret = o->set("", 0);
    } else {
      is_copy = true;
      src = (t + 1 + c.pick(nobj - 1)) % nobj;
      // one byte: bit 0 = name NULL / "", bits 1+2 both set (1 of 4) = property-wise assignment object::set(const object &), bit 3 = with a logger
      uint8_t cb = c.u8();
      bool null_name = cb & 1, prop_wise = (cb & 6) == 6;
      what = "copy " + std::string(kKind[kind]) + "#" + std::to_string(t) + " <- #" + std::to_string(src) + (null_name ? " (name NULL" : " (name \"\"");
      Obj *so = w.objs[src];
      {  // how far the target's own history and the source's differ from the defaults
        bool t_only = false, s_only = false;
        for (size_t i = 0; i < fresh.size(); i++) {
          bool td = snap[t][i].val != fresh[i].val, sd = snap[src][i].val != fresh[i].val;
          if (td && !sd) t_only = true;
          if (sd && !td) s_only = true;
        }
        if (diff(fresh, snap[t]).size()) c.label("copy:onto-changed-target");
        if (t_only) c.label("copy:target-set-where-source-default");
        if (s_only) c.label("copy:source-set-where-target-default");
        if (t_only && prop_wise) c.label("copy:object-set-target-set-source-default");
      }
      if (prop_wise) {
        // the generic property-wise assignment of the C++ object interface (layout inheritance: make_axis, make_world,
        // layout::bind, "text tx1 : tx"): every listed property of the source is set on the target under its name.
        // Its bool result is the converted count/error of mpt_object_foreach (an error is negative, hence "true"), so
        // the oracle does not depend on it: afterwards the target must read like the source.
        is_assign = true;
        what = "assign " + std::string(kKind[kind]) + "#" + std::to_string(t) + " <- #" + std::to_string(src) + " property-wise (object::set(const object &))";
        c.logf("step %u: %s", steps, what.c_str());
        assign_logger = (cb & 8) != 0;
        QuietLogger quiet;
        bool ok = o->object()->set(*so->object(), assign_logger ? static_cast<mpt::logger *>(&quiet) : (mpt::logger *)0);
        c.logf("    %s, %d messages", assign_logger ? "with a logger" : "without logger", quiet.messages);
        if (assign_logger) c.label("copy:object-set-with-logger");
        c.logf("    object::set reports %s", ok ? "true" : "false");
        ret = 0;
        c.label("copy:object-set");
      } else if (flavour == 1 && c.chance(64)) {
        what = "clone " + std::string(kKind[kind]) + "#" + std::to_string(src) + " into slot #" + std::to_string(t);
        c.logf("step %u: %s", steps, what.c_str());
        Obj *n = so->clone();
        VP_CHECK(c, n, "clone-null", "%s: clone() returns NULL", what.c_str());
        o->destroy();
        w.objs[t] = o = n;
        ret = 0;
        c.label("copy:clone");
      } else if (flavour == 1 && c.flip()) {
        what += ", source is the wrapper itself)";
        c.logf("step %u: %s", steps, what.c_str());
        ret = o->set(null_name ? 0 : "", so->as_source());
      } else {
        what += ", source serves the " + std::string(so->by_value() ? "struct" : "pointer") + " type)";
        c.logf("step %u: %s", steps, what.c_str());
        TypedConv tc; tc.type = o->assign_type();
        if (so->by_value()) { tc.data.resize(sizeof(mpt::line)); memcpy(tc.data.data(), so->data(), sizeof(mpt::line)); }
        else { const void *p = so->data(); put(tc.data, p); }
        ret = o->set(null_name ? 0 : "", tc.iface());
      }
    }
    c.logf("    returns %d", ret);

    // ---- observe
    std::vector<Snapshot> after(nobj);
    for (size_t i = 0; i < nobj; i++) after[i] = snapshot(c, kind, w.objs[i]);
    for (size_t i = 0; i < nobj; i++) {
      if (i == t) continue;
      std::string d = diff(snap[i], after[i]);
      VP_CHECK(c, d.empty(), "other-object-changed", "%s (returns %d) changed object #%zu: %s", what.c_str(), ret, i, d.c_str());
    }
    if (ret < 0) {
      std::string d = diff(snap[t], after[t]);
      VP_CHECK(c, d.empty(), "refused-but-changed", "%s is refused (%d) but the object changed: %s", what.c_str(), ret, d.c_str());
      if (op == 0 && ex.known && ex.must_accept)
        c.fail("refused-modelled-value", "%s is refused (%d); the setter has a conversion path for it and must store %s (%s)", what.c_str(), ret, printable(ex.val, 60).c_str(), ex.why.c_str());
      // (a conversion may answer BadArgument too - mpt_value_convert for an unknown type: only the harness convertable and a reset are sure not to)
      if ((op == 1 || (op == 0 && val.mode == MTyped)) && target_prop >= 0 && find_prop(fresh, name) >= 0)
        VP_CHECK(c, ret != mpt::BadArgument, "listed-name-unknown", "%s: the setter does not know the listed property name (BadArgument)", what.c_str());
      if (is_reset && !unknown_name)
        c.fail("reset-refused", "%s is refused (%d)", what.c_str(), ret);
      c.label(is_copy ? "copy:refused" : is_reset ? "reset:refused" : "set:refused");
    } else if (is_copy) {
      std::string d = diff(snap[src], after[t]);
      if (is_assign) {
        // Expected: every listed property reads like the source's. Modelled from the code as it stands:
        //  * text "x"/"y" store any float, but the setter of the listed property "pos" - the only way the property-wise
        //    assignment can transfer the position - refuses coordinates outside [0,1] (mpt_text_set: r = { 0.0, 1.0 };
        //    NaN passes the comparison): such a position is refused and the target keeps its own.
        //  * object_set_property() returns "dat->out ? 1 : -1" for a refused property: with a logger the traversal goes
        //    on, without one mpt_properties_foreach stops there and the properties listed behind it stay untouched.
        bool stopped = false;
        for (size_t i = 0; i < fresh.size(); i++) {
          bool refused = false;
          if (kind == KText && fresh[i].name == "pos") {
            float xy[2];
            for (int k = 0; k < 2; k++) {  // a coordinate renders as "f:<8 hex digits>(..)" or "f:nan"
              std::string comp = cur_component(snap[src][i].val, k);
              unsigned bits = 0;
              if (sscanf(comp.c_str(), "f:%8x(", &bits) == 1) memcpy(&xy[k], &bits, 4); else xy[k] = NAN;
            }
            float x = xy[0], y = xy[1];
            refused = x < 0 || x > 1 || y < 0 || y > 1;
            if (refused) c.label("copy:object-set-text-pos-out-of-range");
          }
          const std::string &want = (stopped || refused) ? snap[t][i].val : snap[src][i].val;
          VP_CHECK(c, after[t][i].val == want, "assign-differs", "%s: %s reads %s afterwards, expected %s (source %s, target before %s%s)", what.c_str(), fresh[i].name.c_str(),
                   printable(after[t][i].val, 80).c_str(), printable(want, 80).c_str(), printable(snap[src][i].val, 80).c_str(), printable(snap[t][i].val, 80).c_str(),
                   stopped ? "; traversal stopped at a refused property, no logger" : refused ? "; value the setter refuses" : "");
          if (refused && !assign_logger) stopped = true;
        }
        d.clear();
      }
      VP_CHECK(c, d.empty(), "copy-differs", "%s accepted (%d) but the copy differs from the source: %s", what.c_str(), ret, d.c_str());
      for (size_t i = 0; i < after[t].size(); i++)
        if (after[t][i].strptr && fk_of(kind, after[t][i].name) == FStr)  // clip reads as a constant of the library
          VP_CHECK(c, after[t][i].strptr != after[src][i].strptr, "copy-shares-string", "%s: %s of copy and source is the same storage %p", what.c_str(), after[t][i].name.c_str(), (const void *)after[t][i].strptr);
      c.label("copy:accepted");
      if (diff(fresh, after[t]).size()) { c.label("copy:of-changed-object"); ++changed; }
      for (const Prop &p : after[t]) if (p.strptr && fk_of(kind, p.name) == FStr) { c.label("copy:with-string"); break; }
    } else if (is_reset) {
      if (target_prop < 0 && op == 2) {
        std::string d = diff(fresh, after[t]);
        VP_CHECK(c, d.empty(), "reset-all-not-default", "%s (returns %d) leaves a difference to a fresh object: %s", what.c_str(), ret, d.c_str());
      } else if (target_prop >= 0) {
        std::string d = diff(snap[t], after[t], target_prop);
        VP_CHECK(c, d.empty(), "reset-changed-other", "%s (returns %d) changed another property: %s", what.c_str(), ret, d.c_str());
        check_get_same_name(c, kind, o, name, fk, after[t][target_prop], what.c_str());
        std::string dflt = fresh[target_prop].val;  // "x"/"y" of text address one coordinate of pos
        if (fk == FTextX) dflt = "pt:" + cur_component(fresh[target_prop].val, 0) + "," + cur_component(snap[t][target_prop].val, 1);
        if (fk == FTextY) dflt = "pt:" + cur_component(snap[t][target_prop].val, 0) + "," + cur_component(fresh[target_prop].val, 1);
        // modelled: a source without value reaches mpt_color_pset(), whose "no value" colour is black/opaque (its documented
        // default); graph background has another default (white, alpha 0) which only the NULL-source reset installs
        if (reset_by_empty && kind == KGraph && fresh[target_prop].name == "background") { uint8_t blk[4] = {255, 0, 0, 0}; dflt = ren_col(blk); c.label("reset:empty-text-graph-bg-black"); }
        VP_CHECK(c, after[t][target_prop].val == dflt, "reset-not-default", "%s (returns %d) leaves %s = %s, a fresh object has %s", what.c_str(), ret,
                 fresh[target_prop].name.c_str(), printable(after[t][target_prop].val, 80).c_str(), printable(dflt, 80).c_str());
        if (snap[t][target_prop].val != fresh[target_prop].val) { c.label("reset:of-changed-property"); ++changed; }
      } else {
        std::string d = diff(snap[t], after[t]);
        VP_CHECK(c, d.empty(), "unknown-name-changed", "%s (returns %d): unknown name changed the object: %s", what.c_str(), ret, d.c_str());
      }
      c.label("reset:accepted");
    } else {  // accepted set
      if (target_prop < 0) {
        std::string d = diff(snap[t], after[t]);
        VP_CHECK(c, d.empty(), "unknown-name-changed", "%s (returns %d): a name the setter source does not know changed the object: %s", what.c_str(), ret, d.c_str());
        c.label("set:unknown-name-accepted");
      } else {
        std::string d = diff(snap[t], after[t], target_prop);
        VP_CHECK(c, d.empty(), "set-changed-other", "%s accepted (%d) changed another property: %s", what.c_str(), ret, d.c_str());
        const std::string &got = after[t][target_prop].val;
        c.logf("    %s reads %s", fresh[target_prop].name.c_str(), printable(got, 80).c_str());
        check_get_same_name(c, kind, o, name, fk, after[t][target_prop], what.c_str());
        if (ex.known) {
          VP_CHECK(c, got == ex.val, ex.val[0] == '!' ? "accepted-no-such-value" : "readback-differs", "%s accepted (%d): %s reads %s, expected %s (%s)", what.c_str(), ret,
                   fresh[target_prop].name.c_str(), printable(got, 80).c_str(), printable(ex.val, 80).c_str(), ex.why.c_str());
          c.label("set:accepted-known");
        } else {
          // the value read back must be a function of the value given, not of the previous state
          Obj *f = make_obj(flavour, kind);
          struct Guard { Obj *o; ~Guard() { if (!std::uncaught_exceptions()) o->destroy(); } } guard{f};
          int r2 = apply(f, name.c_str(), val);
          Snapshot fs = snapshot(c, kind, f);
          c.logf("    on a fresh object: returns %d, reads %s", r2, printable(fs[target_prop].val, 80).c_str());
          VP_CHECK(c, r2 >= 0, "state-dependent", "%s accepted (%d) on the object but refused (%d) on a fresh object", what.c_str(), ret, r2);
          std::string fgot = fs[target_prop].val, hgot = got;
          if (fk == FTextX || fk == FTextY) { fgot = cur_component(fgot, fk == FTextY); hgot = cur_component(hgot, fk == FTextY); }  // one coordinate addressed
          VP_CHECK(c, fgot == hgot, "state-dependent", "%s accepted (%d): %s reads %s, the same set on a fresh object gives %s (was %s before)", what.c_str(), ret,
                   fresh[target_prop].name.c_str(), printable(got, 80).c_str(), printable(fs[target_prop].val, 80).c_str(), printable(snap[t][target_prop].val, 80).c_str());
          c.label("set:accepted-unknown");
        }
        if (got != snap[t][target_prop].val) ++changed;
        if (fk == FColor && is_text(val)) {
          // the colour now stored, printed and parsed again
          CObj<mpt::property> pr; pr->name = fresh[target_prop].name.c_str();
          if (o->get(pr) >= 0 && (long)pr->val._type == g_color_id && pr->val._addr) { check_color_print(c, kind, pr->name, *(const mpt::color *)pr->val._addr); c.label("color:text-print-parse"); }
        }
        char lb[56]; snprintf(lb, sizeof lb, "ok:%s.%s", kKind[kind], fresh[target_prop].name.c_str()); c.label(lb);
        c.label(val.mode == MTyped ? "set:accepted-typed" : val.mode == MValue ? "set:accepted-value" : "set:accepted-text");
      }
    }
    // ---- raw state: members of the plain struct that no listed property shows (axis direction bits, graph frame,
    // text weight/style) and members hidden behind a reading (intv in log mode) obey the same rules
    {
      auto none = [](const char *) { return false; };
      std::vector<Raw> rawafter(nobj);
      for (size_t i = 0; i < nobj; i++) rawafter[i] = raw_state(kind, w.objs[i]);
      for (size_t i = 0; i < nobj; i++) {
        if (i == t) continue;
        std::string d = raw_diff(kind, raws[i], rawafter[i], none);
        VP_CHECK(c, d.empty(), "raw-other-object-changed", "%s (returns %d) changed object #%zu: %s", what.c_str(), ret, i, d.c_str());
      }
      std::string d;
      const char *tag = "raw-set-changed-other";
      if (ret < 0) { d = raw_diff(kind, raws[t], rawafter[t], none); tag = "raw-refused-but-changed"; }
      else if (is_assign) {  // property-wise: what no property lists stays the target's
        d = raw_diff(kind, raws[t], rawafter[t], [&](const char *m) { return member_listed(kind, m); }); tag = "raw-assign-changed-unlisted";
      } else if (is_copy) {  // mpt_*_init(obj, from): the whole struct, strings duplicated
        d = raw_diff(kind, raws[src], rawafter[t], none); tag = "raw-copy-differs";
      } else if (op == 2) {  // mpt_*_fini: *obj = def_*
        d = raw_diff(kind, raw_default, rawafter[t], none); tag = "raw-reset-all-not-default";
      } else if (target_prop >= 0) {
        const char *canon = fresh[target_prop].name.c_str();
        d = raw_diff(kind, raws[t], rawafter[t], [&](const char *m) { return member_listed(kind, m, canon, fk); });
      } else { d = raw_diff(kind, raws[t], rawafter[t], none); tag = "raw-unknown-name-changed"; }
      VP_CHECK(c, d.empty(), tag, "%s (returns %d): %s", what.c_str(), ret, d.c_str());
      raws = rawafter;
    }
    snap = after;
  }
  check_named_get(c, kind, w.objs[0], snap[0]);
  check_text_xy(c, kind, w.objs[0], snap[0]);
  if (changed >= 2) c.nontrivial();
  c.count("steps", steps);
  // ~World_ finalises every object: double free / leak of strings shows here (ASan/LSan)
}

static void run(Ctx &c) {
  uint8_t sel = c.u8();
  int kind = sel % NKind;
  int flavour = (sel / NKind) % 4 == 3 ? 1 : 0;  // 1 of 4 cases through the C++ wrappers
  int tv = sel / 20;  // 0..12: creation variant (0 plain, 1..3 typed) and creation path (wrappers: constructor | create(name))
  run_history(c, flavour, kind, tv % 4, (tv / 4) & 1);
}

static Target t = {
    "C20",
    "random: flavour (C struct via mpt_*_set/get | libmpt++ wrapper via object interface) x kind {axis,line,text,graph,world} x 1-3 objects x history <= 24 of "
    "set(name incl. aliases/case variants/prefixes/junk, value: typed via one-type convertable | text via mpt_object_set_string | text via mpt_convert_string convertable | no value) / "
    "reset(name) / reset-all / copy (generic assignment, name NULL or \"\", pointer or struct type); values across and beyond each field range, strings 0..5000, colour names and #hex, "
    "attribute ranges. non-trivial: at least two steps changed a listed property (set read back different from before, reset of a changed property, copy of a changed object); "
    "distinct by hash of the draw sequence.",
    run,
    {700, 1400},
    true,
    true,
    {},
    0,
    0,
};
Target &vp::target() { return t; }
