// The C static initialisers (MPT_*_INIT) exist only in the C branch of the library headers. This header reads
// core.h a second time *as a C compiler sees it* (no __cplusplus) inside a sandbox namespace and keeps the values the
// initialiser macros produce, evaluated while the C flavour of MPT_STRUCT() etc. is in force. The C and C++ views of
// the structs are layout-identical by design of the library (a C++ program links against the C implementation), so a
// harness may memcpy such a value into storage it then uses through the C API.
// Include AFTER mpt_c.hpp. Nothing of the sandbox but the constants below is meant to be used.
#pragma once
#include <sys/types.h>
#include <stdint.h>
#include <cstddef>

#pragma push_macro("MPT_INTERFACE")
#pragma push_macro("MPT_STRUCT")
#pragma push_macro("MPT_ENUM")
#pragma push_macro("MPT_TYPE")
#pragma push_macro("MPT_ERROR")
#pragma push_macro("MPT_CHARSET")
#pragma push_macro("__MPT_DEFPAR")
#pragma push_macro("__MPT_NAMESPACE_BEGIN")
#pragma push_macro("__MPT_NAMESPACE_END")
#pragma push_macro("__MPT_EXTDECL_BEGIN")
#pragma push_macro("__MPT_EXTDECL_END")
#pragma push_macro("_MPT_CORE_H")
#pragma push_macro("__cplusplus")
#undef MPT_INTERFACE
#undef MPT_STRUCT
#undef MPT_ENUM
#undef MPT_TYPE
#undef MPT_ERROR
#undef MPT_CHARSET
#undef __MPT_DEFPAR
#undef __MPT_NAMESPACE_BEGIN
#undef __MPT_NAMESPACE_END
#undef __MPT_EXTDECL_BEGIN
#undef __MPT_EXTDECL_END
#undef _MPT_CORE_H
#undef __cplusplus

namespace mpt_cview {
#include "core.h"
// what `MPT_STRUCT(identifier) id = MPT_IDENTIFIER_INIT;` gives a C program
static const MPT_STRUCT(identifier) identifier_init = MPT_IDENTIFIER_INIT;
enum { identifier_size = sizeof(MPT_STRUCT(identifier)) };
}  // namespace mpt_cview

#pragma pop_macro("__cplusplus")
#pragma pop_macro("_MPT_CORE_H")
#pragma pop_macro("__MPT_EXTDECL_END")
#pragma pop_macro("__MPT_EXTDECL_BEGIN")
#pragma pop_macro("__MPT_NAMESPACE_END")
#pragma pop_macro("__MPT_NAMESPACE_BEGIN")
#pragma pop_macro("__MPT_DEFPAR")
#pragma pop_macro("MPT_CHARSET")
#pragma pop_macro("MPT_ERROR")
#pragma pop_macro("MPT_TYPE")
#pragma pop_macro("MPT_ENUM")
#pragma pop_macro("MPT_STRUCT")
#pragma pop_macro("MPT_INTERFACE")
