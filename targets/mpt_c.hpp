// Access to the C API of mpt-base from C++ harness code.
// The public headers switch to C++ class declarations (members protected, constructors living in
// libmpt++) when compiled as C++. Harnesses for the C API need the plain C view of the same structs:
// access specifiers are neutralised while the headers are read and objects are created as zeroed raw
// storage (the C initialisers MPT_*_INIT are all-zero except where noted).
#pragma once
#include <algorithm>
#include <cstdint>
#include <cstring>
#include <map>
#include <memory>
#include <ostream>
#include <set>
#include <string>
#include <vector>
#include <sys/uio.h>
#include <sys/types.h>
#include <limits>
#include <cmath>
#include <cstdarg>
#include <cstdio>
#include <cstdlib>
#include <new>

#define protected public
#define private public
#include "core.h"
#include "types.h"
#include "array.h"
#include "convert.h"
#include "message.h"
#include "queue.h"
#include "meta.h"
#include "node.h"
#include "config.h"
#include "parse.h"
#include "event.h"
#include "object.h"
#include "output.h"
#undef protected
#undef private

// zero-initialised C object without running any C++ constructor/destructor
template <typename T>
struct CObj {
  alignas(T) unsigned char raw[sizeof(T)];
  CObj() { memset(raw, 0, sizeof raw); }
  T *get() { return reinterpret_cast<T *>(raw); }
  T *operator->() { return get(); }
  T &operator*() { return *get(); }
  operator T *() { return get(); }
};

// C view of struct buffer / struct array (layout-identical by design of the library)
struct CBufVptr;
struct CBuf {
  const CBufVptr *vptr;
  const mpt::type_traits *traits;
  size_t size;
  size_t used;
  uint8_t *data() { return reinterpret_cast<uint8_t *>(this + 1); }
};
struct CBufVptr {
  uint32_t (*get_flags)(const CBuf *);
  void (*unref)(CBuf *);
  uintptr_t (*addref)(CBuf *);
  CBuf *(*detach)(CBuf *, size_t);
};
inline CBuf *&cbuf(mpt::array &a) { return *reinterpret_cast<CBuf **>(&a); }
inline CBuf *&cbuf(mpt::array *a) { return *reinterpret_cast<CBuf **>(a); }
