// C10 — configuration store behaves as a path-to-value map            vp-link: core
//
// Three scenarios, selected by the first draw (every case runs in a forked child: the global configuration is process state):
//  (1) global: history of assign / remove / query on the process-wide configuration through mpt_config_set/get/getp, through
//      a sub-tree view (mpt_config_global(path) -> config interface) and through the config v-table directly (C libmptcore,
//      i.e. mptcore/meta/meta_new.c and node_new.c are the ones in use).
//  (2) root: the same history on a private C++ mpt::config::root. libmpt++ is loaded with dlopen (local scope), the object is
//      built with its exported constructor and used through the config v-table / the C entry points (the C++ classes are
//      layout compatible by design). Linking libmpt++ instead would replace mpt_meta_new/mpt_node_new for scenario (1) too.
//  (3) paths: mpt_path_set + mpt_path_next walk, mpt_path_last, and building/cutting/re-building a path with
//      mpt_path_addchar/mpt_path_valid/mpt_path_add/mpt_path_del (separator and binary mode) as the parsers do.
// G: paths of 1-4 elements from a small pool (a b c ab, the empty element, elements of 254..257 bytes, elements holding one of
//    the other separators), separators '.' '/' ':' (mixed inside one history), shared prefixes / prefix-of-another by construction;
//    values of length near 0,1,30,200,249 (global: the C mpt_meta_new of this tree refuses >= 250 bytes, a C09 defect handled there;
//    root: up to 700 bytes).
// O: model std::map<vector<string>, string> (path elements -> value). After every step all keys of the model must read back
//    their latest value, and every path touched so far that has no value now (removed, parent of a value, never assigned
//    sibling) must read as absent; removal erases exactly the keys below the removed path. A plain text assignment to a well-formed
//    path must succeed (`assign-refused`; "values of all lengths", lengths 247..258 drawn densely). A third of the v-table
//    assignments on the global store hands in a number: refused there, and a refusal must change nothing, including the existence
//    answers (type-0 query) of every touched path, model key and prefix (`refused-assign-changed-existence`); an accepted number
//    must read back as that number. Every path that is read back is also asked in the other documented forms (typed with and
//    without target address for 's', char vector, 'd', 'i', 'y'; untyped = existence): with/without address must agree, a value
//    implies existence. Call forms of mpt_config_set derived from the drawn path: separator 0 (the string is one element) for
//    single-element paths, an assignment character with a tail behind it, mpt_config_environ with a one-entry environment;
//    queries with separator 0. A third of the plain v-table text assignments passes the text as a character-vector slice
//    without terminator (exact-size heap block / inside a larger buffer followed by non-zero bytes). A third of the views gets its base path in the length-linked (SepBinary) format, built element
//    by element through mpt_path_addchar/valid/add; every modification through a view is read back through the process-wide
//    store and through other views. Path scenario: a third of the paths uses a separator out of {0x7f,0x80,0xa7,0xb7,0xff}.
//    Two thirds of the views are opened from a path descriptor with off > 0 (remainder of a longer
//    path after mpt_path_next). Path walk == std::string split at the separator; rebuilt path == original string.
#include "vp.hpp"

#include "mpt_c.hpp"

#include <dlfcn.h>
#include <sanitizer/asan_interface.h>

using namespace vp;
using namespace mpt;

typedef std::vector<std::string> Key;
typedef std::map<Key, std::string> Map;

// ---- C views of the interface tables -------------------------------------------------------------------------------
typedef int (*CfgHandler)(void *, convertable *, const collection *);
struct CCfgVptr {
  int (*query)(const config *, const path *, CfgHandler, void *);
  int (*assign)(config *, const path *, const value *);
  int (*remove)(config *, const path *);
};
static const CCfgVptr *cvt(const config *c) { return *reinterpret_cast<const CCfgVptr *const *>(c); }
struct CMetaVptr {
  int (*convert)(convertable *, type_t, void *);
  void (*unref)(metatype *);
  uintptr_t (*addref)(metatype *);
  metatype *(*clone)(const metatype *);
};
static const CMetaVptr *mvt(const metatype *m) { return *reinterpret_cast<const CMetaVptr *const *>(m); }
struct CConvVptr { int (*convert)(convertable *, type_t, void *); };

// ---- libmpt++ for the private configuration ------------------------------------------------------------------------
struct Cxx {
  void *h = 0;
  void (*ctor)(void *) = 0;
  void (*dtor)(void *) = 0;
  std::string err;
  Cxx() {
    h = dlopen("libmpt++.so", RTLD_NOW | RTLD_LOCAL);
    if (!h) { err = dlerror(); return; }
    ctor = (void (*)(void *))dlsym(h, "_ZN3mpt6config4rootC1Ev");
    dtor = (void (*)(void *))dlsym(h, "_ZN3mpt6config4rootD1Ev");
    if (!ctor || !dtor) err = "constructor/destructor of mpt::config::root not exported";
  }
};
static Cxx g_cxx;  // loaded once per worker, before the per-case fork

// ---- helpers ---------------------------------------------------------------------------------------------------------
static Key split(const std::string &s, char sep) {
  Key k;
  size_t from = 0;
  while (true) {
    size_t at = s.find(sep, from);
    if (at == std::string::npos) { k.push_back(s.substr(from)); return k; }
    k.push_back(s.substr(from, at - from));
    from = at + 1;
  }
}
static std::string join(const Key &k, char sep, size_t from = 0, size_t to = (size_t)-1) {
  std::string s;
  if (to > k.size()) to = k.size();
  for (size_t i = from; i < to; i++) { if (i > from) s += sep; s += k[i]; }
  return s;
}
static std::string brief(const std::string &s) {
  if (s.size() <= 12) return s;
  char b[64];
  snprintf(b, sizeof b, "%.3s..[%zu]", s.c_str(), s.size());
  return b;
}
static std::string show(const Key &k) {
  std::string r = "<";
  for (size_t i = 0; i < k.size(); i++) r += (i ? "|" : "") + brief(k[i]);
  return r + ">";
}
static bool hasPrefix(const Key &k, const Key &p) { return k.size() >= p.size() && std::equal(p.begin(), p.end(), k.begin()); }
// a separator that occurs in no element of the key, 0 if there is none
static char sepFor(Ctx &c, const Key &k, size_t from = 0) {
  static const char S[] = {'.', '/', ':'};
  size_t start = c.pick(3);
  for (size_t i = 0; i < 3; i++) {
    char s = S[(start + i) % 3];
    bool ok = true;
    for (size_t j = from; j < k.size(); j++) if (k[j].find(s) != std::string::npos) ok = false;
    if (ok) return s;
  }
  return 0;
}
static char sepPlain(const Key &k) {
  for (char s : {'.', '/', ':'}) {
    bool ok = true;
    for (auto &e : k) if (e.find(s) != std::string::npos) ok = false;
    if (ok) return s;
  }
  return 0;
}
static void setPath(path *p, const std::string &s, char sep);
// existence answers (query without a target type: "is there an element") of a set of paths; -1 = not askable
static std::map<Key, int> existence(const config *cfg, const std::set<Key> &keys) {
  std::map<Key, int> r;
  for (auto &k : keys) {
    char sep = sepPlain(k);
    if (!sep) { r[k] = -1; continue; }
    std::string ps = join(k, sep);
    CObj<path> p;
    setPath(p, ps, sep);
    r[k] = mpt_config_getp(cfg, p, 0, 0) >= 0 ? 1 : 0;
  }
  return r;
}
static void setPath(path *p, const std::string &s, char sep) {
  memset(p, 0, sizeof *p);
  p->sep = sep;
  p->assign = 0;
  mpt_path_set(p, s.c_str(), -1);
}

static std::string drawElement(Ctx &c, unsigned longw = 3) {
  switch (c.weighted({14, 3, 2, longw, 2})) {
    case 0: return c.choose<const char *>({"a", "b", "c", "ab"});
    case 1: return "";
    case 2: return c.choose<const char *>({"a.b", "a/b", "b:c", "."});  // holds another separator: one element or several, by the separator in use
    case 3: { size_t n = c.choose<size_t>({254, 255, 256, 257, 255, 256}); c.label("element:long"); return std::string(n, c.flip() ? 'L' : 'M'); }
    default: return c.choose<const char *>({"aa", "abc", "b", "x"});
  }
}
static std::string drawValue(Ctx &c, size_t max) {
  // +-2 around each boundary: 247..258 covers the switch-over from the compact to the buffer-backed text value (250) densely
  size_t n = max > 249 ? c.near({0, 1, 30, 200, 249, 250, 251, 255, 256}, max) : c.near({0, 1, 30, 200, 249}, max);
  std::string v(n, 'v');
  uint8_t salt = c.u8();
  for (size_t i = 0; i < n; i++) v[i] = "v.w/x:y=z 01"[(i * 5 + salt) % 12];
  return v;
}

// mpt::config::root accepts a number (metatype::generic). On this tree metatype::generic::unref() releases its malloc()ed
// storage with "delete this" (ASan alloc-dealloc-mismatch at the latest when the store goes away); repair proposed in
// notes/patches/C10-6-generic-metatype-delete-of-malloc.patch. Switch this on once that is in the tree.
#ifndef C10_NUMBER_ON_ROOT
#define C10_NUMBER_ON_ROOT 1
#endif
static const bool kNumberOnRoot = C10_NUMBER_ON_ROOT;

// Round 4 oracles that fail on the tree as it is (f81f200); each is switched on once its repair is committed:
//  C10_POISON_ITEM_SLACK      notes/patches/C10-7-config-item-query-scans-size.patch
//  C10_ROOT_REMOVED_IS_GONE   notes/patches/C10-8-root-remove-releases-the-element.patch
//  C10_VIEW_OVERLONG_ELEMENT  notes/patches/C10-9-config-assign-parent-fixup-on-failure.patch
#ifndef C10_POISON_ITEM_SLACK
#define C10_POISON_ITEM_SLACK 1
#endif
#ifndef C10_ROOT_REMOVED_IS_GONE
#define C10_ROOT_REMOVED_IS_GONE 1
#endif
#ifndef C10_VIEW_OVERLONG_ELEMENT
#define C10_VIEW_OVERLONG_ELEMENT 1
#endif

// C view of the element store of mpt::config::root: { v-table, unique_array<config_item> }, an item is
// { unique_array<config_item> children, metatype *value, identifier name }, arrays are struct buffer + elements
struct CItem { CBuf *elements; metatype *value; unsigned char name[sizeof(identifier)]; };
static_assert(sizeof(CItem) == sizeof(config_item), "config_item layout");
static_assert(sizeof(config::root) == 2 * sizeof(void *), "config::root layout");
// While a query runs, the allocated but unused tail [used, size) of every element array is poisoned: a query has no
// business there (the slots are uninitialised memory; whatever they hold could pass for an element). Only around
// read-only calls: insertion legitimately writes into the tail.
struct SlackGuard {
  std::vector<std::pair<void *, size_t>> areas;
  static void collect(CBuf *b, std::vector<std::pair<void *, size_t>> &out, int depth) {
    if (!b || depth > 8 || b->size < b->used || b->used % sizeof(CItem)) return;
    if (b->size > b->used) out.push_back({b->data() + b->used, b->size - b->used});
    CItem *it = reinterpret_cast<CItem *>(b->data());
    for (size_t i = 0; i < b->used / sizeof(CItem); i++) collect(it[i].elements, out, depth + 1);
  }
  explicit SlackGuard(void *rootraw) {
    if (!rootraw || !C10_POISON_ITEM_SLACK) return;
    collect(reinterpret_cast<CBuf **>(rootraw)[1], areas, 0);
    for (auto &a : areas) __asan_poison_memory_region(a.first, a.second);
  }
  ~SlackGuard() { for (auto &a : areas) __asan_unpoison_memory_region(a.first, a.second); }
};

// a sub-tree view on the base path `bs`. lead > 0: the descriptor handed to mpt_config_global is the remainder of a longer
// path ("zq.zq.<bs>") whose first `lead` elements were consumed with mpt_path_next, i.e. path.off > 0 (lead is derived
// from values the case has drawn already, no draw of its own)
static metatype *openView(Ctx &c, const std::string &bs, char sep, unsigned lead) {
  // lead == 2: the base path is handed over in the length-linked (SepBinary) format, built element by element through
  // mpt_path_addchar/mpt_path_valid/mpt_path_add as the parsers build theirs; mpt_path_add cannot start with an empty
  // element and stores lengths in one byte, such bases stay with the text form
  if (lead == 2) {
    Key els = split(bs, sep);
    bool ok = !els[0].empty();
    for (auto &e : els) if (e.size() > 255) ok = false;
    if (ok) {
      struct Owner { CObj<path> p; ~Owner() { mpt_path_fini(p); } } o;
      path *bp = o.p;
      bp->sep = '.';
      bp->flags = path::SepBinary;
      for (auto &e : els) {
        for (char ch : e) { int r = mpt_path_addchar(bp, ch); VP_CHECK(c, r >= 0, "addchar-refused", "view base: mpt_path_addchar refused (%d)", r); mpt_path_valid(bp); }
        int valid = mpt_path_valid(bp);
        VP_CHECK(c, valid == (int)e.size(), "valid-count", "view base: mpt_path_valid reports %d pending bytes, %zu were added", valid, e.size());
        int r = mpt_path_add(bp, valid);
        VP_CHECK(c, r >= 0, "add-refused", "view base: mpt_path_add(%d) refused (%d)", valid, r);
      }
      c.label("view:binary-base");
      return mpt_config_global(bp);  // copies what it needs
    }
  }
  std::string full;
  for (unsigned i = 0; i < lead; i++) { full += "zq"; full += sep; }
  full += bs;
  CObj<path> bp;
  setPath(bp, full, sep);
  for (unsigned i = 0; i < lead; i++) {
    int len = mpt_path_next(bp);
    VP_CHECK(c, len == 2, "walk-element", "mpt_path_next over the leading element of a view path returns %d", len);
  }
  if (lead) { c.label("view:from-remainder"); VP_CHECK(c, bp->off == 3u * lead && bp->len == bs.size() + 1, "walk-element", "remainder of the view path has off %zu len %zu", bp->off, bp->len); }
  return mpt_config_global(bp);  // copies what it needs
}

// ---- one configuration under test ----------------------------------------------------------------------------------
struct Store {
  config *cfg = 0;     // interface of the whole store
  void *rootraw = 0;   // storage of the private mpt::config::root (scenario root)
  bool global = false;
  Map model;
  std::set<Key> touched;  // every path that was assigned, removed or used as a view base
  std::set<Key> nontext;  // paths whose latest accepted assignment was not a text (a store may accept a number): not read as text
  size_t valmax = 249;
  bool armed = false;  // an overwrite / a removal of an inner node happened since the last verification
};

struct TextOut { const char *text; int ret; bool called; bool is_vec; std::string vec; };
static int textHandler(void *ctx, convertable *val, const collection *) {
  TextOut *o = (TextOut *)ctx;
  o->called = true;
  if (!val) return o->ret = MissingData;
  const char *t = 0;
  int r = (*reinterpret_cast<const CConvVptr *const *>(val))->convert(val, 's', &t);
  if (r < 0) {  // long text values are stored buffer-backed and convert to a character vector, not to 's'
    struct iovec vec = {0, 0};
    int r2 = (*reinterpret_cast<const CConvVptr *const *>(val))->convert(val, MPT_type_toVector('c'), &vec);
    if (r2 >= 0) {
      o->vec.assign((const char *)vec.iov_base, strnlen((const char *)vec.iov_base, vec.iov_len));
      o->is_vec = true;
      return o->ret = r2;
    }
  }
  o->text = t;
  return o->ret = r;
}

// reads key through one of the query routes; returns true and the text when a value is reported
static bool readKey(Ctx &c, Store &s, const Key &k, unsigned route, std::string &out, std::string &how) {
  const char *text = (const char *)(uintptr_t)0x1;  // poison: must be overwritten on success
  int r;
  SlackGuard guard(s.rootraw);
  char sep = sepFor(c, k);
  if (!sep) { how = "skipped (every separator occurs in the key)"; return false; }
  std::string ps = join(k, sep);
  CObj<path> p;
  setPath(p, ps, sep);
  switch (route % 4) {
    case 0: default:
      how = "mpt_config_getp";
      if (k.size() == 1 && (ps.size() + route) % 2 == 0) { setPath(p, ps, 0); how = "mpt_config_getp (separator 0)"; }
      r = mpt_config_getp(s.global && (route & 4) ? 0 : s.cfg, p, 's', &text);
      break;
    case 1:
      if (s.global && sep == '.') { how = "mpt_config_get"; r = mpt_config_get((route & 4) ? 0 : s.cfg, ps.c_str(), 's', &text); }
      else { how = "mpt_config_getp"; r = mpt_config_getp(s.cfg, p, 's', &text); }
      break;
    case 2: {
      how = "v-table query";
      TextOut o = {0, 0, false, false, std::string()};
      r = cvt(s.cfg)->query(s.cfg, p, textHandler, &o);
      if (r >= 0) { if (!o.called) c.fail("query-no-callback", "query(%s) returned %d without calling the handler", show(k).c_str(), r); if (o.is_vec) { out = o.vec; return true; } text = o.text; }
      break;
    }
    case 3: {
      if (!s.global) { how = "mpt_config_getp"; r = mpt_config_getp(s.cfg, p, 's', &text); break; }
      // through a view on the first n elements
      size_t n = 1 + c.pick(k.size());
      char bsep = sepFor(c, Key(k.begin(), k.begin() + n));
      char rsep = n < k.size() ? sepFor(c, k, n) : '.';
      if (!bsep || !rsep) { how = "mpt_config_getp"; r = mpt_config_getp(s.cfg, p, 's', &text); break; }
      std::string bs = join(k, bsep, 0, n), rs = join(k, rsep, n);
      CObj<path> rp;
      unsigned lead = (unsigned)((k.size() + n + ps.size()) % 3);
      how = "view(" + std::to_string(n) + " elements" + (lead == 2 ? ", binary-format base or path remainder" : lead ? ", from a path remainder" : "") + ")";
      // a view creates nothing until something is assigned through it
      metatype *v = openView(c, bs, bsep, lead);
      VP_CHECK(c, v, "view-null", "mpt_config_global(%s) returned NULL", show(Key(k.begin(), k.begin() + n)).c_str());
      config *vc = 0;
      int cr = mvt(v)->convert((convertable *)v, TypeConfigPtr, &vc);
      VP_CHECK(c, cr >= 0 && vc, "view-null", "view does not convert to a config interface (%d)", cr);
      if (n < k.size()) setPath(rp, rs, rsep);  // else: empty path = the base element itself
      else { memset(rp.get(), 0, sizeof(path)); rp->sep = '.'; }
      r = mpt_config_getp(vc, rp, 's', &text);
      mvt(v)->unref(v);
      break;
    }
  }
  if (r < 0 && route % 4 != 2) {
    // 's' refused: a long text value is buffer-backed and converts to a character vector instead (mpt_meta_new)
    struct iovec vec = {0, 0};
    int r2 = mpt_config_getp(s.global && (route & 4) ? 0 : s.cfg, p, MPT_type_toVector('c'), &vec);
    if (r2 >= 0 && vec.iov_base) {
      out.assign((const char *)vec.iov_base, strnlen((const char *)vec.iov_base, vec.iov_len));
      how += " (as character vector)";
      c.label("read:char-vector");
      return true;
    }
  }
  if (r < 0) return false;
  VP_CHECK(c, text != (const char *)(uintptr_t)0x1, "query-no-result", "%s(%s) reports success (%d) but stores no text pointer", how.c_str(), show(k).c_str(), r);
  out = text ? text : "";  // an empty text value converts to a NULL string
  return true;
}

// Every documented form of the query for one path: typed with a target address, typed without one ("is a value of that
// type there", the address is an optional parameter), and untyped (type 0: "is the element there"). The answers with and
// without address must agree, and a value can only be there when the element is. No draws.
static void queryForms(Ctx &c, Store &s, const Key &k, unsigned salt, const char *after) {
  char sep = sepPlain(k);
  if (!sep) return;
  std::string ps = join(k, sep);
  CObj<path> p;
  setPath(p, ps, sep);
  SlackGuard guard(s.rootraw);
  static const int kTypes[] = {'s', 0 /* char vector */, 'd', 'i', 'y'};
  int ex0 = mpt_config_getp(s.cfg, p, 0, 0);
  char dummy[64];
  int ex1 = mpt_config_getp(s.cfg, p, 0, dummy);
  VP_CHECK(c, (ex0 >= 0) == (ex1 >= 0), "query-address-verdict", "after %s: existence query for %s answers %d without and %d with a target address", after, show(k).c_str(), ex0, ex1);
  bool any = false;
  for (unsigned i = 0; i < 2; i++) {
    int type = kTypes[(salt + i * 2) % 5];
    if (!type) type = MPT_type_toVector('c');
    union { const char *s; struct iovec v; double d; int32_t i; uint8_t y; char raw[64]; } buf;
    memset(&buf, 0, sizeof buf);
    int with = mpt_config_getp(s.cfg, p, (type_t)type, &buf);
    int without = mpt_config_getp(s.cfg, p, (type_t)type, 0);
    VP_CHECK(c, (with >= 0) == (without >= 0), "query-address-verdict", "after %s: query for %s as type %d answers %d with a target address and %d without one", after, show(k).c_str(), type, with, without);
    if (with >= 0) any = true;
  }
  VP_CHECK(c, !any || ex0 >= 0, "query-existence", "after %s: %s has a value but the query for its existence answers %d", after, show(k).c_str(), ex0);
  c.label("query:all-forms");
}

static void verify(Ctx &c, Store &s, const char *after) {
  unsigned route = (unsigned)c.pick(8);
  size_t checked = 0;
  for (auto &kv : s.model) {
    std::string got, how;
    bool have = readKey(c, s, kv.first, route, got, how);
    if (how[0] == 's') continue;
    ++checked;
    VP_CHECK(c, have, "value-lost", "after %s: %s reads as absent through %s, the model holds a value of %zu bytes", after, show(kv.first).c_str(), how.c_str(), kv.second.size());
    VP_CHECK(c, got == kv.second, "value-wrong", "after %s: %s reads '%s' (%zu bytes) through %s, most recent assignment was '%s' (%zu bytes)", after, show(kv.first).c_str(), brief(got).c_str(), got.size(), how.c_str(),
             brief(kv.second).c_str(), kv.second.size());
    queryForms(c, s, kv.first, route + (unsigned)checked, after);
  }
  // paths without a value: touched earlier, or a proper prefix of a key
  std::set<Key> absent;
  for (auto &k : s.touched) if (!s.model.count(k)) absent.insert(k);
  for (auto &kv : s.model) for (size_t n = 1; n < kv.first.size(); n++) { Key p(kv.first.begin(), kv.first.begin() + n); if (!s.model.count(p)) absent.insert(p); }
  for (auto &k : absent) {
    if (s.nontext.count(k)) continue;
    std::string got, how;
    bool have = readKey(c, s, k, route + 1, got, how);
    if (how[0] == 's') continue;
    ++checked;
    VP_CHECK(c, !have, "value-ghost", "after %s: %s reads '%s' through %s, but no value is assigned to that path", after, show(k).c_str(), brief(got).c_str(), how.c_str());
    queryForms(c, s, k, route + (unsigned)checked, after);
  }
  if (s.armed && checked > 1) { c.nontrivial(); s.armed = false; }
}

static void step(Ctx &c, Store &s, std::vector<Key> &pool) {
  // path: a pool entry (re-use), a pool entry extended/shortened (prefix relations), or fresh elements
  Key k;
  switch (pool.empty() ? 3 : c.weighted({5, 3, 2, 3})) {
    case 0: k = pool[c.pick(pool.size())]; break;
    case 1: k = pool[c.pick(pool.size())]; if (k.size() < 4) k.push_back(drawElement(c)); break;
    case 2: k = pool[c.pick(pool.size())]; if (k.size() > 1) k.pop_back(); break;
    default: { size_t n = 1 + c.weighted({3, 4, 2, 1}); for (size_t i = 0; i < n; i++) k.push_back(drawElement(c)); }
  }
  char sep = sepFor(c, k);
  if (!sep) { c.label("skip:no-separator"); return; }
  // the string decides: an element that holds the separator in use is several elements
  std::string ps = join(k, sep);
  k = split(ps, sep);
  if (std::find(pool.begin(), pool.end(), k) == pool.end() && pool.size() < 12) pool.push_back(k);
  for (auto &e : k) if (e.empty()) { c.label("path:empty-element"); break; }
  CObj<path> p;
  setPath(p, ps, sep);

  size_t op = c.weighted({10, 5, 2, 1});
  // route of the modification
  unsigned via = (unsigned)c.pick(s.global ? 4 : 2);
  metatype *view = 0;
  config *target = s.cfg;
  CObj<path> rel;
  std::string rs, bs;
  const path *usep = p;
  std::string pstr = ps;
  char usesep = sep;
  const char *route = via == 0 ? "mpt_config_set" : via == 1 ? "v-table" : via == 2 ? "mpt_config_set(NULL)" : "view";
  if (via == 3) {
    if (k.size() < 2) { via = 0; route = "mpt_config_set"; }
    else {
      size_t n = 1 + c.pick(k.size() - 1);
      bs = join(k, sep, 0, n);
      rs = join(k, sep, n);
      unsigned lead = (unsigned)((k.size() + n + ps.size()) % 3);
      if (lead) route = lead == 2 ? "view (binary-format base or path remainder)" : "view (from a path remainder)";
      view = openView(c, bs, sep, lead);
      VP_CHECK(c, view, "view-null", "mpt_config_global returned NULL");
      int cr = mvt(view)->convert((convertable *)view, TypeConfigPtr, &target);
      VP_CHECK(c, cr >= 0 && target, "view-null", "view does not convert to a config interface (%d)", cr);
      setPath(rel, rs, sep);
      usep = rel;
      pstr = rs;
      s.touched.insert(Key(k.begin(), k.begin() + n));
      c.label("route:view");
    }
  }
  s.touched.insert(k);
  // forms of the mpt_config_set call (derived from the path drawn, no draws of their own):
  //  * separator 0 = "the string is one element" whenever the (relative) path is a single element, whatever it holds
  //    ("a.b", "."): split at exactly the separator given, none for 0
  //  * an assignment character: the path ends in front of it, the rest of the string is not path
  //  * mpt_config_environ with a one-entry environment "path=value" (names are lower-cased there: only for paths
  //    without capitals), pattern "*", the same separator (0 stands for '_' there: single elements only)
  int callsep = usesep, endch = 0;
  std::string callstr = pstr;
  bool single = split(pstr, usesep).size() == 1;
  bool viaEnviron = false;
  if (via != 1) {
    if (single && (ps.size() + via) % 2 == 0) { callsep = 0; c.label("call:separator-0"); }
    else if ((ps.size() + k.size()) % 5 == 0) { callstr += "=x.y/z:w"; endch = '='; c.label("call:assign-character"); }
    if (op == 0 && via == 0 && !endch && ps.size() % 4 == 3 && ps.size() < 1000 && std::none_of(ps.begin(), ps.end(), [](char ch) { return ch >= 'A' && ch <= 'Z'; }))
      viaEnviron = true;
  }
  if (op == 0) {
    std::string v = drawValue(c, s.valmax);
    const char *vp = v.c_str();
    CObj<value> val;
    val->_addr = &vp;
    val->_type = 's';
    int r;
    // a third of the v-table assignments hands in a number instead of a text (decided by the salt byte of the value, no extra
    // draw): the text-only stores refuse it (mpt_meta_new: "supports text content only"), and a refusal must change nothing,
    // including which paths exist (DESIGN sect. 4). Only on the whole store: an assignment through a view creates the
    // view's base elements before it looks at the value.
    // a third of the assignments through a view appends an element of 65535 bytes to the relative path (again decided by the
    // salt byte): a name cannot be that long (mpt_identifier_set), so the assignment fails after the elements in front of it
    // were created. The store must stay sound: the children of the view's base name it as their parent (looked at through
    // the view's node interface), and the usual follow-up - removing what the failed call left behind - works.
    bool overlong = C10_VIEW_OVERLONG_ELEMENT && via == 3 && !v.empty() && strchr("v/y ", v[0]) != 0;
    if (overlong) {
      Key k2 = k;
      k2.push_back(std::string(65535, 'H'));
      std::string rs2 = rs + sep + k2.back();
      size_t nbase = k.size() - split(rs, sep).size();
      r = mpt_config_set(target, rs2.c_str(), vp, usesep, 0);
      c.logf("  assign %s = '%s'[%zu] via %s (sep '%c') -> %d", show(k2).c_str(), brief(v).c_str(), v.size(), route, sep, r);
      s.touched.insert(k2);
      if (r >= 0) { s.model[k2] = v; c.label("assign:overlong-accepted"); }
      else c.label("assign:overlong-refused");
      node *bn = 0;
      int nr = mvt(view)->convert((convertable *)view, TypeNodePtr, &bn);
      VP_CHECK(c, nr >= 0 && bn, "view-null", "view does not convert to its base node (%d)", nr);
      size_t steps = 0;
      for (node *ch = bn->children; ch && ++steps < 1000; ch = ch->next)
        VP_CHECK(c, ch->parent == bn, "view-base-child-parent", "after the %s assignment of %s through a view on %s, child %zu of the base element does not name it as parent", r < 0 ? "failed" : "accepted", show(k2).c_str(),
                 show(Key(k.begin(), k.begin() + nbase)).c_str(), steps);
      if (r < 0) {
        // follow-up: remove the first element below the base (whole-store interface)
        Key k3(k.begin(), k.begin() + nbase + 1);
        std::string p3 = join(k3, sep);
        int rr = mpt_config_set(s.cfg, p3.c_str(), 0, sep, 0);
        c.logf("  remove %s via mpt_config_set (sep '%c') -> %d", show(k3).c_str(), sep, rr);
        for (auto it = s.model.begin(); it != s.model.end();) { if (hasPrefix(it->first, k3)) it = s.model.erase(it); else ++it; }
        for (auto it = s.nontext.begin(); it != s.nontext.end();) { if (hasPrefix(*it, k3)) it = s.nontext.erase(it); else ++it; }
        s.touched.insert(k3);
        s.armed = true;
      }
    } else {
    bool number = via == 1 && !v.empty() && strchr("v/y ", v[0]) != 0 && (s.global || kNumberOnRoot);  // first byte of the text = salt % 12 in "v.w/x:y=z 01": every third
    if (number) {
      double num = 0.25 * (double)v.size() + 1.5;
      std::set<Key> ask = s.touched;
      for (auto &kv : s.model) ask.insert(kv.first);
      for (size_t n = 1; n <= k.size(); n++) ask.insert(Key(k.begin(), k.begin() + n));
      std::map<Key, int> before = existence(s.cfg, ask);
      CObj<value> nv;
      nv->_addr = &num;
      nv->_type = 'd';
      r = cvt(target)->assign(target, usep, nv);
      c.logf("  assign %s = (double) %g via v-table (sep '%c') -> %d", show(k).c_str(), num, sep, r);
      if (r < 0) {
        std::map<Key, int> after = existence(s.cfg, ask);
        for (auto &b : before)
          VP_CHECK(c, after[b.first] == b.second, "refused-assign-changed-existence", "assignment of a number to %s was refused (%d), but %s %s before and %s now", show(k).c_str(), r, show(b.first).c_str(),
                   b.second ? "existed" : "did not exist", after[b.first] ? "exists" : "does not exist");
        c.label("assign:number-refused");
      } else {
        // accepted: the number is the most recent value of the path
        double back = -1;
        CObj<path> np;
        setPath(np, ps, sep);
        int gr = mpt_config_getp(s.cfg, np, 'd', &back);
        VP_CHECK(c, gr >= 0 && back == num, "value-wrong", "number %g assigned to %s (accepted, %d) reads back as %g (%d)", num, show(k).c_str(), r, back, gr);
        if (s.model.erase(k)) s.armed = true;
        s.nontext.insert(k);
        c.label("assign:number-accepted");
      }
    } else {
    // a third of the remaining v-table assignments hands the text in as a character-vector SLICE (how mpt_parse_config,
    // mpt_config_load and mpt_message_assign pass values): no terminator behind it - the slice is an exact-size heap block
    // (one byte too many is an ASan report) or sits inside a larger buffer followed by non-zero bytes
    bool slice = via == 1 && !v.empty() && strchr("w:= ", v[0]) != 0;
    if (slice) {
      bool exact = v.size() % 2 == 0;
      size_t pre = exact ? 0 : 5, post = exact ? 0 : 9;
      char *block = (char *)malloc(pre + v.size() + post);
      memset(block, 'Z', pre + v.size() + post);
      memcpy(block + pre, v.data(), v.size());
      struct iovec vec = {block + pre, v.size()};
      CObj<value> sv;
      sv->_addr = &vec;
      sv->_type = (type_t)MPT_type_toVector('c');
      r = cvt(target)->assign(target, usep, sv);
      free(block);
      route = exact ? "v-table (character vector, exact-size block)" : "v-table (character vector inside a larger buffer)";
      c.label("assign:char-vector-slice");
      if (v.size() >= 250) c.label("assign:char-vector-slice-long");
    }
    else if (via == 1) r = cvt(target)->assign(target, usep, val);
    else if (viaEnviron) {
      std::string var = callstr + "=" + v;
      char *env[2] = {&var[0], 0};
      r = mpt_config_environ(target, "*", callsep, env);
      route = "mpt_config_environ";
      c.label("call:environ");
      VP_CHECK(c, r == 1 || r < 0, "assign-refused", "mpt_config_environ accepted %d of 1 variables", r);
    }
    else r = mpt_config_set(via == 2 ? 0 : target, callstr.c_str(), vp, callsep, endch);
    c.logf("  assign %s = '%s'[%zu] via %s (sep %d%s) -> %d", show(k).c_str(), brief(v).c_str(), v.size(), route, callsep, endch ? ", assign '='" : "", r);
    // "values of all lengths": a plain text to a well-formed path is what the store is for; on the unchanged tree no such
    // assignment is ever refused (0 of > 120 000 per quick run), so a refusal is not the tolerated kind of DESIGN sect. 4
    VP_CHECK(c, r >= 0, "assign-refused", "assignment of a text value of %zu bytes to %s via %s was refused (%d)", v.size(), show(k).c_str(), route, r);
    if (s.model.count(k)) { c.label("assign:overwrite"); s.armed = true; }
    s.model[k] = v;
    s.nontext.erase(k);
    c.label("assign:ok");
    }
    }
  } else if (op == 1) {
    size_t below = 0;
    for (auto &kv : s.model) if (hasPrefix(kv.first, k)) ++below;
    int r;
    if (via == 1) r = cvt(target)->remove(target, usep);
    else r = mpt_config_set(via == 2 ? 0 : target, callstr.c_str(), 0, callsep, endch);
    c.logf("  remove %s via %s (sep %d%s) -> %d   (%zu values at or below)", show(k).c_str(), route, callsep, endch ? ", assign '='" : "", r, below);
    for (auto it = s.model.begin(); it != s.model.end();) { if (hasPrefix(it->first, k)) it = s.model.erase(it); else ++it; }
    for (auto it = s.nontext.begin(); it != s.nontext.end();) { if (hasPrefix(*it, k)) it = s.nontext.erase(it); else ++it; }
    // "removing a path removes it": the element itself is gone, also for a query that only asks whether it is there
    if (s.global || C10_ROOT_REMOVED_IS_GONE) {
      std::set<Key> ask;
      ask.insert(k);
      std::map<Key, int> ex = existence(s.cfg, ask);
      VP_CHECK(c, ex[k] != 1, "removed-still-exists", "%s was removed via %s (%d) but a query for its existence still finds it", show(k).c_str(), route, r);
    }
    c.label("remove");
    if (below > 1 || (below == 1 && !s.model.empty())) { c.label("remove:inner-or-sibling"); s.armed = true; }
    if (!below) c.label("remove:nothing-there");
  } else if (op == 3) {
    // assignment without a value (v-table only; the C++ interface declares "assign(path, value = 0)"): the element keeps its
    // children and has no value afterwards
    int r = cvt(target)->assign(target, usep, 0);
    c.logf("  assign %s = (no value) via %s v-table -> %d", show(k).c_str(), via == 3 ? "view" : "", r);
    // mpt_meta_set documents two outcomes for "no value": an existing value that offers an iterator (buffer-backed long
    // text) is reset and kept, anything else is replaced by the default (absent). Either is accepted, nothing else:
    // the outcome is read back once and becomes the model's state (verify() then re-reads through every route).
    auto prev = s.model.find(k);
    if (prev != s.model.end()) {
      std::string got, how;
      bool have = readKey(c, s, k, 0, got, how);
      if (have && got == prev->second && got.size() >= 250) { c.label("assign:no-value-kept-iterator-value"); }
      else { s.model.erase(prev); s.armed = true; }
    }
    c.label("assign:no-value");
  } else {
    c.logf("  query pass only (%s)", show(k).c_str());
    c.label("query-only");
  }
  if (view) mvt(view)->unref(view);
  verify(c, s, op == 0 ? "assign" : op == 1 ? "remove" : op == 3 ? "assign(no value)" : "query");
}

static void run_store(Ctx &c, bool global) {
  Store s;
  s.global = global;
  alignas(16) unsigned char raw[sizeof(config::root) + 32];
  if (global) {
    metatype *g = mpt_config_global(0);
    VP_CHECK(c, g, "global-null", "mpt_config_global(0) is NULL");
    int r = mvt(g)->convert((convertable *)g, TypeConfigPtr, &s.cfg);
    VP_CHECK(c, r >= 0 && s.cfg, "global-null", "global configuration does not convert to its config interface (%d)", r);
    s.valmax = 700;  // values >= 250 bytes were refused by mpt_meta_new before the C09 repair (83ec04a)
    c.label("scenario:global");
  } else {
    VP_CHECK(c, g_cxx.err.empty(), "harness-cxx-load", "libmpt++ not usable: %s", g_cxx.err.c_str());
    memset(raw, 0, sizeof raw);
    g_cxx.ctor(raw);
    s.cfg = reinterpret_cast<config *>(raw);
    s.rootraw = raw;
    s.valmax = 700;
    c.label("scenario:root");
  }
  std::vector<Key> pool;
  int steps = 0;
  while (c.more() && ++steps <= 40) step(c, s, pool);
  // remove everything: nothing may be readable afterwards (the empty path addresses the whole store)
  if (c.flip()) {
    CObj<path> all;
    all->sep = '.';
    int r = cvt(s.cfg)->remove(s.cfg, all);
    c.logf("  remove everything -> %d", r);
    s.model.clear();
    s.nontext.clear();
    verify(c, s, "remove-all");
    c.label("remove-all");
  }
  if (!global) g_cxx.dtor(raw);
  else {
    // leave nothing behind for the leak check of the child: the global tree is released by its own atexit handler;
    // clear it here so that anything still allocated is attributable
    CObj<path> all;
    all->sep = '.';
    cvt(s.cfg)->remove(s.cfg, all);
  }
}

// ---- scenario 3: path walking and rebuilding -----------------------------------------------------------------------
static std::string sub(const path *p) { return std::string(p->base + p->off, p->len); }

static void walk(Ctx &c, const path *orig, const Key &want, const char *what, const char *tag = 0) {
  CObj<path> p;
  memcpy(p.get(), orig, sizeof(path));
  for (size_t i = 0; i < want.size(); i++) {
    const char *at = p->base + p->off;
    int len = mpt_path_next(p);
    VP_CHECK(c, len >= 0, tag ? tag : "walk-short", "%s: mpt_path_next reports %d at element %zu of %zu", what, len, i, want.size());
    VP_CHECK(c, (size_t)len == want[i].size() && !memcmp(at, want[i].data(), len), tag ? tag : "walk-element", "%s: element %zu is '%s' (%d bytes), expected '%s' (%zu bytes)", what, i,
             brief(std::string(at, len > 0 ? (size_t)len : 0)).c_str(), len, brief(want[i]).c_str(), want[i].size());
  }
  VP_CHECK(c, p->len == 0, tag ? tag : "walk-long", "%s: %zu bytes of path left after %zu elements", what, p->len, want.size());
  int len = mpt_path_next(p);
  VP_CHECK(c, len < 0, tag ? tag : "walk-long", "%s: mpt_path_next delivers another element (%d) after the last one", what, len);
}

static void run_paths(Ctx &c) {
  c.label("scenario:paths");
  char sep = c.choose<char>({'.', '/', ':'});
  size_t n = 1 + c.weighted({2, 3, 3, 2, 1});
  Key k;
  for (size_t i = 0; i < n; i++) k.push_back(drawElement(c, 8));
  std::string s = join(k, sep);
  k = split(s, sep);
  // a third of the paths uses a separator from the upper half of the byte range / the last 7-bit code instead (derived from
  // the path drawn, no draw of its own): the separator is a `char`, the path bytes are read through char and uint8_t pointers
  if ((k.size() + s.size()) % 3 == 0) {
    static const unsigned char kHigh[] = {0x7f, 0x80, 0xa7, 0xb7, 0xff};
    sep = (char)kHigh[(k.size() * 3 + s.size()) % 5];
    s = join(k, sep);
    c.label("separator:high-byte");
  }
  bool longel = false, emptyel = false;
  for (auto &e : k) { if (e.size() >= 255) longel = true; if (e.empty()) emptyel = true; }
  c.logf("  path %s sep 0x%02x (%zu bytes)", show(k).c_str(), (unsigned)(unsigned char)sep, s.size());

  // (a) set + walk, with the terminating zero or an explicit length in front of an assignment character
  {
    CObj<path> p;
    memset(p.get(), 0, sizeof(path));
    p->sep = sep;
    std::string text = s;
    int elems;
    // (the element count returned by mpt_path_set is not used by any caller and not part of the property: not checked)
    if (c.flip()) { elems = mpt_path_set(p, text.c_str(), -1); }
    else { text += "=value"; elems = mpt_path_set(p, text.c_str(), (int)s.size()); c.label("set:explicit-length"); }
    (void)elems;
    VP_CHECK(c, p->off == 0 && p->len == s.size() + 1, "set-length", "mpt_path_set gives off %zu len %zu for a path of %zu bytes", p->off, p->len, s.size());
    walk(c, p, k, "after mpt_path_set");
    // last element
    CObj<path> l;
    memcpy(l.get(), p.get(), sizeof(path));
    int len = mpt_path_last(l);
    VP_CHECK(c, len == (int)k.back().size(), "last@set", "mpt_path_last returns %d, last element has %zu bytes", len, k.back().size());
    VP_CHECK(c, l->off + k.back().size() == s.size(), "last@set", "mpt_path_last positions the path at %zu, last element starts at %zu", l->off, s.size() - k.back().size());
    walk(c, l, Key(1, k.back()), "after mpt_path_last", "last@set");
    if (k.back().size() >= 255) c.label("last:long");
    // last element of a path whose front was consumed already
    size_t skip = c.pick(k.size());
    if (skip) {
      memcpy(l.get(), p.get(), sizeof(path));
      for (size_t i = 0; i < skip; i++) mpt_path_next(l);
      len = mpt_path_last(l);
      VP_CHECK(c, len == (int)k.back().size(), "last@next", "mpt_path_last behind %zu consumed elements returns %d, last element has %zu bytes", skip, len, k.back().size());
      VP_CHECK(c, l->off + k.back().size() == s.size(), "last@next", "mpt_path_last behind %zu consumed elements positions the path at %zu, last element starts at %zu", skip, l->off, s.size() - k.back().size());
      walk(c, l, Key(1, k.back()), "after mpt_path_next + mpt_path_last", "last@next");
      c.label("last:after-next");
    }
  }

  // (b) build element by element like the parsers: addchar*, valid, add; then cut and re-build
  bool binary = c.chance(80);
  bool buildable = !k[0].empty();  // mpt_path_add has nothing to attach an empty first element to (no buffer yet): refusal
  for (auto &e : k) if (binary && e.size() > 255) buildable = false;  // binary mode stores the length in one byte: refusal
  if (!buildable) { c.label("build:skipped"); if (k.size() > 1 || longel || emptyel) c.nontrivial(); return; }
  struct Owner { CObj<path> p; ~Owner() { mpt_path_fini(p); } } o;
  path *p = o.p;
  p->sep = sep;
  p->flags = binary ? path::SepBinary : 0;
  c.label(binary ? "build:binary" : "build:separator");
  c.logf("  build in %s mode", binary ? "binary" : "separator");
  auto addElement = [&](const std::string &e, const char *when) {
    // like the parsers: every character that belongs to the name is confirmed with mpt_path_valid (an unconfirmed
    // character is overwritten by the next one, that is how trailing blanks are dropped)
    for (char ch : e) { int r = mpt_path_addchar(p, ch); VP_CHECK(c, r >= 0, "addchar-refused", "%s: mpt_path_addchar refused (%d)", when, r); mpt_path_valid(p); }
    int valid = mpt_path_valid(p);
    VP_CHECK(c, valid == (int)e.size(), "valid-count", "%s: mpt_path_valid reports %d pending bytes, %zu were added", when, valid, e.size());
    int r = mpt_path_add(p, valid);
    VP_CHECK(c, r >= 0, "add-refused", "%s: mpt_path_add(%d) refused (%d)", when, valid, r);
  };
  auto check = [&](const Key &want, bool whole, const char *when) {
    if (!binary && whole) {
      std::string full = join(want, sep);
      VP_CHECK(c, p->len == full.size() + 1 && sub(p) == full + '\0', "rebuild-string", "%s: path reads '%s' (%zu bytes), expected '%s' + terminator", when, brief(sub(p)).c_str(), p->len, brief(full).c_str());
    }
    walk(c, p, want, when);
  };
  for (auto &e : k) addElement(e, "build");
  check(k, true, "after building");
  if (k.size() > 1 || longel) {
    CObj<path> l;
    memcpy(l.get(), p, sizeof(path));
    int len = mpt_path_last(l);
    const char *lt = binary ? "last@built-binary" : "last@built";
    VP_CHECK(c, len == (int)k.back().size(), lt, "mpt_path_last on the built path returns %d, last element has %zu bytes", len, k.back().size());
    walk(c, l, Key(1, k.back()), "mpt_path_last on the built path", lt);
  }
  size_t cut = c.range(0, k.size());
  Key rest = k;
  for (size_t i = 0; i < cut; i++) {
    int r = mpt_path_del(p);
    VP_CHECK(c, r == (int)rest.back().size(), "del-length", "mpt_path_del returns %d, removed element has %zu bytes", r, rest.back().size());
    rest.pop_back();
    check(rest, false, "after mpt_path_del");
  }
  if (rest.empty()) { int r = mpt_path_del(p); VP_CHECK(c, r < 0, "del-empty", "mpt_path_del on an empty path returns %d", r); }
  if (cut) c.label("build:cut");
  bool rebuilt = false;
  if (!rest.empty() || !k[0].empty()) {
    for (size_t i = rest.size(); i < k.size(); i++) addElement(k[i], "re-build");
    check(k, true, "after re-building");
    rebuilt = cut > 0;
  }
  if (k.size() > 1 && (rebuilt || longel || emptyel)) c.nontrivial();
}

static void run(Ctx &c) {
  switch (c.weighted({4, 3, 4})) {
    case 0: run_store(c, true); break;
    case 1: run_store(c, false); break;
    default: run_paths(c);
  }
}

static Target t = {
    "C10",
    "scenario global (C library) / private mpt::config::root (libmpt++ via dlopen) / path walking. Histories (<= 40 steps) of assign, remove, query over paths of 1-4 elements "
    "from {a,b,c,ab,aa,abc,x, empty, 254..257-byte elements, elements holding another separator} with separators . / : (re-use, extension and shortening of earlier paths "
    "give shared prefixes and prefix-of-another), values near 0/1/30/200/249 bytes (root: up to 700), through mpt_config_set/get/getp, sub-tree views and the config v-table; "
    "after every step all model keys and all touched/prefix paths without value are read back. Paths: mpt_path_set/next/last against std::string split, "
    "addchar/valid/add/del build, cut and re-build in separator and binary mode. non-trivial: an overwrite or a removal with other values at/below/beside the path was followed "
    "by a read-back of more than one path; paths: several elements and (cut+re-built, or a >= 255 byte or empty element); distinct by hash of the draw sequence.",
    run,
    {500, 1500},
    true,
    true,
    {},
    0,
    0,
};
Target &vp::target() { return t; }
