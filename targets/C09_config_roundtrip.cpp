// C09 — configuration text is read back faithfully            vp-link: core
//
// G: section style ('*' prefix nested, 'x' enclosed flat, ' ' separated flat, '_' options only) x drawn delimiter
//    set x name flags x random tree (depth <= 4, fan-out <= 5, duplicate/empty names, empty sections, empty
//    values, value lengths near 0,1,249,250,254,255,256,65534,65535,65536) x two renderings by the harness
//    printer with independent decoration (white space, blank lines, comment lines, optional quoting).
// O: mpt_parse_node(empty root) succeeds for both renderings and yields exactly the generated tree
//    (nesting, order, names, values byte for byte through the node's metatype); both renderings agree.
#include "vp.hpp"
#include "cfgtree.hpp"

using namespace vp;
using namespace cfgtree;
using namespace mpt;

static void parse_doc(Ctx &c, const Fmt &f, Flags fl, const std::string &doc, std::vector<Node> &got, const char *which) {
  Source src(doc);
  CObj<mpt::parser_context> pc;
  src.bind(pc);
  pc->name.sect = fl.sect;
  pc->name.opt = fl.opt;
  Root root;
  int r = mpt_parse_node(root.get(), pc, f.cstr());
  c.logf("rendering %s: %zu bytes, mpt_parse_node=%d line=%zu getc calls=%zu", which, doc.size(), r, (size_t)pc->src.line, src.calls);
  if (r == -0x80)
    c.fail("store-refused", "rendering %s: the node handler could not store an element (mpt_parse_node=%d, line %zu of %s)", which, r, (size_t)pc->src.line, brief(doc, 200).c_str());
  VP_CHECK(c, r >= 0, "parse-refused", "rendering %s: mpt_parse_node=%d at line %zu, parser state %x, text: %s", which, r, (size_t)pc->src.line, pc->curr, brief(doc, 300).c_str());
  read_list(root.get()->children, got);
}

static void classify(Ctx &c, const std::vector<Node> &t, size_t depth, bool &long_value, bool &huge_value) {
  std::set<std::string> seen;
  for (auto &n : t) {
    if (!seen.insert(n.name).second) c.label("tree:duplicate-sibling-name");
    if (n.name.empty()) c.label("tree:empty-name");
    if (n.name.size() >= 250) c.label("tree:name>=250");
    if (n.kids.empty() && n.section) c.label("tree:empty-section");
    if (n.kids.empty() && !n.section && n.value.empty()) c.label("tree:empty-value");
    if (n.value.size() >= 250) { long_value = true; c.label("value:>=250"); }
    if (n.value.size() >= 65000) { huge_value = true; c.label("value:>=65000"); }
    if (n.value.size() >= 65536) c.label("value:>=65536");
    classify(c, n.kids, depth + 1, long_value, huge_value);
  }
}

// Second route: the element parsers driven on a path with binary separators (MPT_PATHFLAG(SepBinary)), elements stored with
// mpt_node_append - what examples/core/parse.c does, written like the loop of mpt_parse_config. Names are length-prefixed on
// this path, so a name may contain the '.' that the text path of mpt_parse_config / mpt_parse_node refuses.
static void parse_binary_path(Ctx &c, const Fmt &f, Flags fl, const std::string &doc, std::vector<Node> &got, const char *which) {
  CObj<parser_format> pf;
  int family = mpt_parse_format(pf, f.cstr());
  input_parser_t next = mpt_parse_next_fcn(family);
  VP_CHECK(c, next, "harness", "no element parser for the family");
  Source src(doc);
  CObj<parser_context> pc;
  src.bind(pc);
  pc->name.sect = fl.sect;
  pc->name.opt = fl.opt;
  pc->prev = (uint8_t)parser_context::Section;
  CObj<path> pa;
  pa->sep = '.';
  pa->flags = path::SepBinary;
  struct Fini { path *p; ~Fini() { mpt_path_fini(p); } } fini{pa.get()};
  Root root;
  node *curr = root.get();
  struct iovec vec = {0, 0};
  CObj<value> val;
  val->_addr = &vec;
  val->_type = vec_char_type();
  int ret;
  size_t elements = 0;
  while ((ret = next(pf.get(), pc, pa)) > 0) {
    vec.iov_base = (char *)(pa->base + pa->off + pa->len);
    vec.iov_len = pc->valid;
    node *n = mpt_node_append(curr, pa, (ret & parser_context::Data) ? val.get() : 0, pc->prev, ret);
    if (!n) { ret = -0x80; break; }
    curr = n;
    ++elements;
    ret = (ret & parser_context::SectEnd) ? mpt_path_del(pa) : mpt_path_invalidate(pa);
    if (ret < 0) { ret = -0x10; break; }
    pc->prev = pc->curr;
    pc->curr = 0;
    pc->valid = 0;
  }
  c.logf("rendering %s on a binary path: %d after %zu elements, line %zu", which, ret, elements, (size_t)pc->src.line);
  if (ret == -0x80) c.fail("binary-path-store-refused", "rendering %s, binary path: mpt_node_append refused element %zu (line %zu of %s)", which, elements + 1, (size_t)pc->src.line, brief(doc, 200).c_str());
  VP_CHECK(c, ret >= 0, "binary-path-refused", "rendering %s, binary path: %d at line %zu after %zu elements, parser state %x, text: %s", which, ret, (size_t)pc->src.line, elements, pc->curr, brief(doc, 300).c_str());
  read_list(root.get()->children, got);
}

static bool has_dot_name(const std::vector<Node> &t) {
  for (auto &n : t) if (n.name.find('.') != std::string::npos || has_dot_name(n.kids)) return true;
  return false;
}

static void run(Ctx &c) {
  static const int fam[] = {'*', 'x', ' ', '_'};
  int family = fam[c.weighted({6, 2, 2, 1})];
  Fmt f = draw_fmt(c, family);
  // 'x' family with different start and end characters: the end character is never recognised, so no section can be written,
  // but a text without sections is still a text of this style. Taken for the formats that name three quote characters (no draw),
  // unless the finding C09-x-style-distinct-delimiters is open.
  if (family == 'x' && f.esc[2] && !c.exclude("C09-x-style-distinct-delimiters")) {
    for (const char *p = kPunct; *p; ++p) {
      if (f.is_delim(*p) || f.is_com(*p) || f.is_esc(*p)) continue;
      f.text[2] = *p;
      decode(f);
      break;
    }
    c.label("fmt:x-distinct-delimiters");
  }
  Flags fl = draw_flags(c);
  GenLimits lim;
  lim.huge_values = c.chance(16);
  if (c.exclude("C09-long-value-refused")) { lim.max_value = 249; lim.huge_values = false; }
  else if (c.exclude("C09-value-length-16bit")) { lim.max_value = 65535; }
  std::vector<uint8_t> da = deco_bytes(c), db = deco_bytes(c);  // drawn ahead of the tree, which uses up the rest
  TreeGen g(c, f, fl, lim);
  // a third of the cases (chosen by the sizes of the decoration blocks: no draw) may write '.' into names although the finding
  // about the text path is open; a tree that has such a name is parsed on the binary path only
  g.dots = (da.size() / 48 + db.size() / 48) % 3 == 0;
  std::vector<Node> tree = g.tree();
  make_expressible(tree, f);
  bool text_route = !has_dot_name(tree) || !c.exclude("C09-name-with-path-separator");

  c.logf("%s", show(f).c_str());
  c.logf("%s", show(fl).c_str());
  c.logf("tree: %zu nodes, depth %zu", count_nodes(tree), tree_depth(tree));
  if (has_dot_name(tree)) { c.logf("shape: a name contains the path separator '.'"); c.label("name:with-path-separator"); }
  log_tree(c, tree);

  Ctx ca(da.data(), da.size(), false), cb(db.data(), db.size(), false);
  Printer pa(ca, f, !da.empty());
  std::string a = pa.render(tree);
  Printer pb(cb, f, !db.empty());
  std::string b = pb.render(tree);
  c.loghex("decoration A", da.data(), std::min<size_t>(da.size(), 16));
  c.loghex("decoration B", db.data(), std::min<size_t>(db.size(), 16));
  c.logf("rendering A: %s", brief(a, 3000).c_str());
  c.logf("rendering B: %s", brief(b, 3000).c_str());

  std::vector<Node> ga, gb;
  std::string d;
  if (text_route) {
    parse_doc(c, f, fl, a, ga, "A");
    d = diff(tree, ga);
    VP_CHECK(c, d.empty(), "tree-mismatch", "rendering A parsed into a different tree: %s", d.c_str());
    parse_doc(c, f, fl, b, gb, "B");
    d = diff(tree, gb);
    VP_CHECK(c, d.empty(), "tree-mismatch", "rendering B parsed into a different tree: %s", d.c_str());
    d = diff(ga, gb);
    VP_CHECK(c, d.empty(), "pair-mismatch", "renderings A and B of the same tree parse differently: %s", d.c_str());
  } else c.label("route:binary-path-only");
  // binary path route: always when the text route is closed, otherwise for one rendering of texts of moderate size
  if (!text_route || a.size() < 4000) {
    std::vector<Node> ba;
    parse_binary_path(c, f, fl, a, ba, "A");
    d = diff(tree, ba);
    VP_CHECK(c, d.empty(), "binary-path-mismatch", "rendering A parsed on a binary path into a different tree: %s", d.c_str());
    c.label("route:binary-path");
  }
  if (!text_route) {
    std::vector<Node> bb;
    parse_binary_path(c, f, fl, b, bb, "B");
    d = diff(tree, bb);
    VP_CHECK(c, d.empty(), "binary-path-mismatch", "rendering B parsed on a binary path into a different tree: %s", d.c_str());
  }

  // measurement
  char lab[40];
  snprintf(lab, sizeof lab, "style:%c", family == ' ' ? 's' : family);
  c.label(lab);
  if (f.oend) c.label("fmt:option-end");
  if (f.ostart) c.label("fmt:option-start");
  if (!f.ncom()) c.label("fmt:no-comment-char");
  if (fl.sect != 0xff || fl.opt != 0xff) c.label("flags:restricted");
  bool long_value = false, huge_value = false;
  classify(c, tree, 1, long_value, huge_value);
  size_t depth = tree_depth(tree);
  snprintf(lab, sizeof lab, "depth:%zu", depth);
  c.label(lab);
  bool quoted = pa.quoted + pb.quoted > 0, inner = pa.inner_comments + pb.inner_comments > 0;
  if (quoted) c.label("value:quoted");
  if (pa.multiline + pb.multiline) c.label("value:quoted-multiline");
  if (inner) c.label("deco:comment-inside-section");
  if (pa.comments + pb.comments) c.label("deco:comments");
  if (pa.blanklines + pb.blanklines) c.label("deco:blank-lines");
  if (a != b) c.label("pair:renderings-differ");
  if (pa.tight_comment_values + pb.tight_comment_values) c.label("value:bare-comment-character-first");
  if (pa.ends_in_comment + pb.ends_in_comment) c.label("text:ends-inside-comment");
  if (depth >= 2 && (quoted || long_value || inner)) c.nontrivial();
}

static Target t = {
    "C09",
    "random: section style ('*' nested | 'x' flat | ' ' flat | '_' options) x delimiter set (conventional or distinct punctuation; option start/end, 0-4 comment, "
    "1-3 quote characters) x name flags x tree (depth <= 4, fan-out <= 5, duplicate and empty names, empty sections/values, names <= 255 from the permitted alphabet, "
    "values near 0/1/249/250/254/255/256/65534/65535/65536 with spaces, quotes, backslashes, delimiters, high bytes, line breaks) x two harness renderings with independent "
    "white space, blank lines, comments and optional quoting; oracle: both parse (mpt_parse_node, empty root) into exactly the generated tree. "
    "non-trivial: depth >= 2 and (a quoted value, a value >= 250 bytes, or a comment inside a section); distinct by hash of the draw sequence.",
    run,
    {2500, 6000},
    false,
    true,
    {},
    0,
    0,
};
Target &vp::target() { return t; }
