// cfgtree.hpp — shared by C08 (parser totality) and C09 (configuration text round trip)
//
//  * Fmt       : a parser format string and the delimiter set the library decodes from it
//  * Node      : model of a configuration tree (name, value, children)
//  * gen_*     : construction-based generators for names, values, trees (per section style)
//  * Printer   : renders a model tree as configuration text in one of the section styles, decorated
//                with insignificant whitespace, blank lines and comment lines (all choices drawn)
//  * Source    : counting getc callback over an exact-size heap buffer
//  * read_tree / diff / walk / build : library node tree <-> model, structural walker
//
// Only constructs whose meaning was established from the parser sources and confirmed by experiment
// are printed (DESIGN.md sect. 6 C09, notes/C09-report.md "grammar").
#pragma once
#include "vp.hpp"
#include "mpt_c.hpp"

namespace cfgtree {
using vp::Ctx;

// type code of a character vector (struct iovec of text), MPT_type_toVector('c')
inline int vec_char_type() { using namespace mpt; return MPT_type_toVector('c'); }

// ---------------------------------------------------------------------------------------------
// format
struct Fmt {
  std::string text;  // string handed to mpt_parse_format / mpt_parse_node
  bool null_text = false;
  int family = '*';  // as returned by mpt_parse_format
  uint8_t sstart = 0, send = 0, ostart = 0, assign = 0, oend = 0, esc[3] = {0, 0, 0}, com[4] = {0, 0, 0, 0};
  bool is_com(int ch) const { return ch && (ch == com[0] || ch == com[1] || ch == com[2] || ch == com[3]); }
  bool is_esc(int ch) const { return ch && (ch == esc[0] || ch == esc[1] || ch == esc[2]); }
  bool is_delim(int ch) const { return ch && (ch == sstart || ch == send || ch == ostart || ch == assign || ch == oend); }
  const char *cstr() const { return null_text ? 0 : text.c_str(); }
  size_t ncom() const { size_t n = 0; for (uint8_t x : com) if (x) ++n; return n; }
};

// the effective delimiter set is whatever the library decodes (the printer must talk about the same characters)
inline void decode(Fmt &f) {
  using namespace mpt;
  CObj<mpt::parser_format> pf;
  f.family = mpt_parse_format(pf, f.cstr());
  f.sstart = pf->sstart; f.send = pf->send; f.ostart = pf->ostart; f.assign = pf->assign; f.oend = pf->oend;
  memcpy(f.esc, pf->esc, 3);
  memcpy(f.com, pf->com, 4);
}

// layout: [0] section start  [1] family  [2] section end  [3] option start  [4] assign  [5] option end
//         [6..] comment characters (max 4), white space, escape characters (max 3); ' ' = absent
inline std::string compose(int family, int ss, int se, int os, int as, int oe, const std::string &com, const std::string &esc) {
  std::string s;
  s += (char)(ss ? ss : ' ');
  s += (char)family;
  s += (char)(se ? se : ' ');
  s += (char)(os ? os : ' ');
  s += (char)(as ? as : ' ');
  s += (char)(oe ? oe : ' ');
  s += com;
  if (!esc.empty()) { s += ' '; s += esc; }
  return s;
}

inline std::string show(const Fmt &f) {
  char b[200];
  snprintf(b, sizeof b, "fmt=%s%s%s family='%c' sstart=%02x send=%02x ostart=%02x assign=%02x oend=%02x esc=%02x,%02x,%02x com=%02x,%02x,%02x,%02x",
           f.null_text ? "" : "\"", f.null_text ? "NULL" : vp::hex(f.text.data(), f.text.size(), 24).c_str(), f.null_text ? "" : "\"(hex)", f.family > 31 && f.family < 127 ? f.family : '?',
           f.sstart, f.send, f.ostart, f.assign, f.oend, f.esc[0], f.esc[1], f.esc[2], f.com[0], f.com[1], f.com[2], f.com[3]);
  return b;
}

// punctuation the delimiters are drawn from ('.' is the hard-wired path separator of mpt_parse_config and
// '\\' the hard-wired quote escape: both are never delimiters here)
static const char kPunct[] = "{}[]()<>|%$@&*+-/:;,!#~^=?_`\"'";

// a well-formed delimiter set for a section style: all characters distinct, assign present,
// 'x': start == end, '*' and ' ': start != end
inline Fmt draw_fmt(Ctx &c, int family) {
  Fmt f;
  std::string pool = kPunct;
  auto take = [&](const char *prefer) -> int {
    if (prefer) {
      size_t p = pool.find(*prefer);
      if (p != std::string::npos) { pool.erase(p, 1); return (unsigned char)*prefer; }
    }
    size_t i = c.pick(pool.size());
    int ch = (unsigned char)pool[i];
    pool.erase(i, 1);
    return ch;
  };
  bool conv = !c.chance(96);  // conventional characters most of the time
  int ss, se, os = 0, as, oe = 0;
  std::string com, esc;
  if (family == 'x') { ss = se = take(conv ? "%" : 0); }
  else if (family == ' ') { ss = take(conv ? "[" : 0); se = take(conv ? "]" : 0); }
  else { ss = take(conv ? "{" : 0); se = take(conv ? "}" : 0); }
  as = take(conv ? "=" : 0);
  if (c.chance(family == '*' ? 110 : 60)) oe = take(conv ? ";" : 0);
  if (family != '_' && c.chance(40)) os = take(conv ? "$" : 0);
  static const size_t kNcom[] = {1, 0, 2, 3, 4};
  size_t ncom = kNcom[c.weighted({8, 2, 3, 1, 1})];
  for (size_t i = 0; i < ncom; i++) com += (char)take(conv ? (i == 0 ? "#" : "!") : 0);
  size_t nesc = 1 + c.weighted({3, 5, 1});
  for (size_t i = 0; i < nesc; i++) esc += (char)take(conv ? (i == 0 ? "\"" : i == 1 ? "'" : "`") : 0);
  f.text = compose(family, ss, se, os, as, oe, com, esc);
  decode(f);
  return f;
}

// ---------------------------------------------------------------------------------------------
// name flags (parse.h MPT_NAMEFLAG)
enum { NumStart = 1, NumCont = 2, Special = 4, Space = 8, Empty = 0x10, Binary = 0x20 };
struct Flags { uint16_t sect = 0xff, opt = 0xff; };
inline Flags draw_flags(Ctx &c) {
  Flags fl;
  if (c.chance(120)) { fl.sect = c.u8() & 0x3f; fl.opt = c.u8() & 0x3f; }
  return fl;
}
inline std::string show(const Flags &fl) {
  char b[64];
  snprintf(b, sizeof b, "flags sect=%02x opt=%02x", fl.sect, fl.opt);
  return b;
}

// ---------------------------------------------------------------------------------------------
// model
struct Node {
  std::string name;   // "" = no name
  std::string value;  // "" = no value
  bool section = false;  // rendering hint only: written as a section (always true with children)
  std::vector<Node> kids;
};
inline size_t count_nodes(const std::vector<Node> &v) { size_t n = v.size(); for (auto &k : v) n += count_nodes(k.kids); return n; }
inline size_t tree_depth(const std::vector<Node> &v) { size_t d = 0; for (auto &k : v) d = std::max(d, 1 + tree_depth(k.kids)); return d; }

inline std::string brief(const std::string &s, size_t max = 40) {
  std::string o;
  for (size_t i = 0; i < s.size() && i < max; i++) {
    unsigned char ch = s[i];
    char b[8];
    if (ch == '\\') o += "\\\\";
    else if (ch >= 32 && ch < 127) o += (char)ch;
    else { snprintf(b, sizeof b, "\\x%02x", ch); o += b; }
  }
  if (s.size() > max) { char b[32]; snprintf(b, sizeof b, "...(%zu)", s.size()); o += b; }
  return o;
}
inline void log_tree(Ctx &c, const std::vector<Node> &v, int d = 0) {
  if (!c.verbose()) return;
  for (auto &n : v) {
    c.logf("%*s%s'%s' value(%zu)='%s'", d * 2 + 2, "", n.kids.empty() ? (n.section ? "sect " : "opt  ") : "sect ", brief(n.name).c_str(), n.value.size(), brief(n.value).c_str());
    log_tree(c, n.kids, d + 1);
  }
}

// first difference between two trees ("" = equal); the rendering hint is not compared
inline std::string diff(const std::vector<Node> &want, const std::vector<Node> &got, const std::string &where = "") {
  char b[256];
  if (want.size() != got.size()) {
    snprintf(b, sizeof b, "%s/: %zu children expected, %zu found", where.c_str(), want.size(), got.size());
    return b;
  }
  for (size_t i = 0; i < want.size(); i++) {
    snprintf(b, sizeof b, "%s/%zu", where.c_str(), i);
    std::string at = b;
    if (want[i].name != got[i].name) return at + ": name '" + brief(got[i].name) + "' instead of '" + brief(want[i].name) + "'";
    if (want[i].value != got[i].value) {
      size_t k = 0;
      while (k < want[i].value.size() && k < got[i].value.size() && want[i].value[k] == got[i].value[k]) ++k;
      snprintf(b, sizeof b, " (lengths %zu / %zu, first difference at %zu)", got[i].value.size(), want[i].value.size(), k);
      return at + " '" + brief(want[i].name, 16) + "': value '" + brief(got[i].value) + "' instead of '" + brief(want[i].value) + "'" + b;
    }
    std::string d = diff(want[i].kids, got[i].kids, at);
    if (!d.empty()) return d;
  }
  return "";
}

// ---------------------------------------------------------------------------------------------
// generators
struct NameRule {
  uint16_t flags;        // name flags that apply (section or option set)
  const Fmt *f;
  bool inner_space;      // white space inside the name is expressible in this position
  bool second_plain;     // second character must not be white space (option names of the 'x' and ' ' styles)
  bool allow_empty;      // the empty name is expressible in this position
  bool dots = false;     // '.' may be written although the finding about the text path separator is open (binary path route)
};

inline bool name_char_ok(const Fmt &f, int ch) {
  return ch && ch != '.' && !f.is_delim(ch) && !f.is_com(ch);
}

inline std::string gen_name(Ctx &c, const NameRule &r, std::vector<std::string> &pool) {
  // duplicate of an earlier name that satisfies the same rule
  if (!pool.empty() && c.chance(50)) return pool[c.pick(pool.size())];
  if (r.allow_empty && (r.flags & Empty) && c.chance(24)) return "";
  size_t len = c.chance(12) ? c.near({254, 255}, 255) : c.range(1, 9);
  if (len < 1) len = 1;
  static const char alpha[] = "abcdefghijklmnopqrstuvwxyzABCDEFGHIJKLMNOPQRSTUVWXYZ";
  static const char special[] = "!\"#$%&'()*+,-/:;<=>?@[\\]^_`{|}~";
  std::string s;
  bool filler = len > 24;  // long names: drawn head and tail, letter filling in between
  for (size_t i = 0; i < len; i++) {
    if (filler && i >= 8 && i + 8 < len) { s += alpha[(i * 7) % 52]; continue; }
    bool first = i == 0, last = i + 1 == len;
    int ch = 0;
    switch (c.weighted({10, 3, 3, 2, 2})) {
      case 1: if (r.flags & (first ? NumStart : NumCont)) ch = '0' + (int)c.pick(10); break;
      case 2:
        if (r.flags & Special) {
          ch = special[c.pick(sizeof special - 1)];
          if (!name_char_ok(*r.f, ch)) ch = 0;
          // '.' is permitted by the Special name flag as well, but mpt_parse_config refuses it (it is the separator of the
          // text path it builds): open finding C09-name-with-path-separator. No extra draw, so older cases keep their meaning.
          else if (ch == ':' && (i & 1) && (r.dots || !c.exclude("C09-name-with-path-separator"))) ch = '.';
        }
        break;
      case 3: if ((r.flags & Space) && r.inner_space && !first && !last && !(r.second_plain && i == 1)) ch = c.flip() ? ' ' : '\t'; break;
      case 4:
        if (r.flags & Binary) {
          ch = c.flip() ? (int)c.range(0x80, 0xff) : (int)c.range(1, 0x1f);
          if (ch == 0x7f || (ch >= 9 && ch <= 13) || !name_char_ok(*r.f, ch)) ch = 0;
        }
        break;
      default: break;
    }
    if (!ch) ch = alpha[c.pick(52)];
    s += (char)ch;
  }
  pool.push_back(s);
  return s;
}

// value text: printable with inner spaces, quotes, backslashes, delimiter and comment characters, a few
// high bytes / tabs / line breaks; long values are a drawn head and tail around a filling
inline std::string gen_value(Ctx &c, const Fmt &f, size_t maxlen, bool allow_huge) {
  size_t len;
  switch (c.weighted({12, 3, 3, 1})) {
    case 0: len = c.range(1, 24); break;
    case 1: len = 0; break;
    case 2: len = c.near({1, 249, 250, 254, 255, 256}, 300); break;
    default: len = allow_huge ? c.near({65534, 65535, 65536}, 66000) : c.near({249, 250, 255, 256}, 300); break;
  }
  if (len > maxlen) len = maxlen;
  static const char plain[] = "abcdefghijklmnopqrstuvwxyzABCDEFGHIJKLMNOPQRSTUVWXYZ0123456789_-+/:,.@";
  std::string s;
  for (size_t i = 0; i < len; i++) {
    if (len > 40 && i >= 12 && i + 8 < len) { s += (i % 17 == 5) ? ' ' : plain[(i * 11) % (sizeof plain - 1)]; continue; }
    int ch;
    switch (c.weighted({12, 4, 3, 2, 3, 1, 1})) {
      case 1: ch = ' '; break;
      case 2: { int q = f.esc[c.pick(3)]; ch = q ? q : '"'; break; }
      case 3: ch = '\\'; break;
      case 4: {
        const uint8_t d[] = {f.sstart, f.send, f.ostart, f.assign, f.oend, f.com[0], f.com[1], '#', '=', '.'};
        ch = d[c.pick(sizeof d)];
        if (!ch) ch = ';';
        break;
      }
      case 5: ch = (int)c.range(0x80, 0xff); break;
      case 6: ch = c.flip() ? '\t' : '\n'; break;
      default: ch = plain[c.pick(sizeof plain - 1)]; break;
    }
    s += (char)ch;
  }
  return s;
}

struct GenLimits {
  size_t max_depth = 4, max_fan = 5, max_nodes = 40, max_value = 66000;
  bool huge_values = true;
};

struct TreeGen {
  Ctx &c;
  const Fmt &f;
  Flags fl;
  GenLimits lim;
  size_t nodes = 0, huge = 0;
  bool dots = false;  // names may contain '.' regardless of the open finding (set by the driver that uses a binary path)
  std::vector<std::string> sect_pool, opt_pool;
  TreeGen(Ctx &c_, const Fmt &f_, Flags fl_, GenLimits l) : c(c_), f(f_), fl(fl_), lim(l) {}

  std::string value() {
    bool allow = lim.huge_values && huge < 1;
    std::string v = gen_value(c, f, lim.max_value, allow);
    if (v.size() > 60000) ++huge;
    return v;
  }
  Node option(bool flat) {
    Node n;
    // 'x' and ' ' styles: the first character of an option name is read by the section parser, white space
    // behind it is skipped, and the empty name cannot be written
    // (swallowed white space behind the first character: finding C09-option-name-second-character; no draw involved)
    NameRule r{fl.opt, &f, true, flat && c.exclude("C09-option-name-second-character"), !flat || f.family == '_'};
    r.dots = dots;
    n.name = gen_name(c, r, opt_pool);
    n.value = value();
    ++nodes;
    return n;
  }
  // '*' style: sections nest freely
  void nested(std::vector<Node> &out, size_t depth) {
    while (out.size() < lim.max_fan && nodes < lim.max_nodes && c.more()) {
      bool sect = depth < lim.max_depth && c.chance(90);
      if (sect) {
        Node n;
        NameRule r{fl.sect, &f, true, false, true};
        r.dots = dots;
        n.name = gen_name(c, r, sect_pool);
        n.section = true;
        ++nodes;
        nested(n.kids, depth + 1);
        out.push_back(std::move(n));
      } else {
        out.push_back(option(false));
      }
    }
  }
  // 'x' and ' ' styles: options first, then sections holding options only; '_': options only
  void flat(std::vector<Node> &out) {
    while (out.size() < lim.max_fan && nodes < lim.max_nodes && c.more()) out.push_back(option(true));
    if (f.family == '_' || (f.family == 'x' && f.sstart != f.send)) return;  // no section can be written
    size_t ns = 0;
    while (ns < lim.max_fan && nodes < lim.max_nodes && c.more()) {
      Node n;
      // 'x': a section name ends at the first white space; ' ': inner white space is kept, "[]" is the empty name
      NameRule r{fl.sect, &f, f.family == ' ', false, f.family == ' '};
      r.dots = dots;
      n.name = gen_name(c, r, sect_pool);
      n.section = true;
      ++nodes;
      ++ns;
      while (n.kids.size() < lim.max_fan && nodes < lim.max_nodes && c.more()) n.kids.push_back(option(true));
      out.push_back(std::move(n));
    }
  }
  std::vector<Node> tree() {
    std::vector<Node> t;
    if (f.family == '*') nested(t, 1);
    else flat(t);
    return t;
  }
};

// ---------------------------------------------------------------------------------------------
// printer
//
// The decoration choices of one rendering are drawn from a small block of case bytes that is read
// cyclically (each further round xor-ed with a round constant), so that a few case bytes decorate a whole
// document: still a pure function of the case bytes, and zeroing the block gives the plain rendering.
inline std::vector<uint8_t> deco_bytes(Ctx &c) {
  size_t k = c.range(0, 8);
  std::vector<uint8_t> seed = c.bytes(k), out;
  for (size_t round = 0; k && round < 48; round++)
    for (size_t i = 0; i < k; i++) out.push_back((uint8_t)(seed[i] ^ (round * 0x9d) ^ ((round * i) << 3)));
  return out;
}

struct Printer {
  Ctx &c;
  const Fmt &f;
  bool decorate;
  std::string out;
  size_t last_comment_at = std::string::npos;
  size_t comments = 0, quoted = 0, inner_comments = 0, blanklines = 0, multiline = 0, tight_comment_values = 0, ends_in_comment = 0;
  Printer(Ctx &c_, const Fmt &f_, bool deco) : c(c_), f(f_), decorate(deco) {}

  // white space that is not a line break
  std::string ws(bool at_least_one = false) {
    std::string s;
    size_t n = decorate ? c.weighted({6, 5, 2, 1}) : 0;
    if (at_least_one && !n) n = 1;
    for (size_t i = 0; i < n; i++) {
      size_t k = decorate ? c.weighted({12, 4, 1, 1, 1}) : 0;
      s += " \t\r\v\f"[k];
    }
    return s;
  }
  // comment text up to (not including) the line break
  std::string comment() {
    std::string s;
    last_comment_at = out.size();
    s += (char)f.com[c.pick(f.ncom())];
    static const char txt[] = "abc xyz 0 = { } [ ] ; \" ' # ! \\ %";
    size_t n = c.range(0, 10);
    for (size_t i = 0; i < n; i++) s += txt[c.pick(sizeof txt - 1)];
    ++comments;
    return s;
  }
  // blank and comment lines, then indentation; legal wherever an element may start
  void gap(bool inside_section) {
    if (!decorate) return;
    size_t n = c.weighted({8, 3, 1});
    for (size_t i = 0; i < n; i++) {
      out += ws();
      if (f.ncom() && c.flip()) { out += comment(); if (inside_section) ++inner_comments; }
      else ++blanklines;
      out += '\n';
    }
    out += ws();
  }
  // end of a line: optional white space and comment, line break
  void eol(bool inside_section, bool value_before) {
    // behind a value a comment needs white space in front; with an option-end character the line is
    // finished by the next element parser, which skips white space and comments
    if (decorate && f.ncom() && c.chance(70)) {
      out += ws(value_before);
      out += comment();
      if (inside_section) ++inner_comments;
    } else {
      out += ws();
    }
    out += '\n';
  }

  // (tight: the value is written directly behind the assign character; mpt_parse_data starts a comment only behind
  // white space, so a comment character as first byte of the value is data then)
  bool needs_quote(const std::string &v, bool tight = false) const {
    if (isspace((unsigned char)v.front()) || isspace((unsigned char)v.back())) return true;
    for (size_t i = 0; i < v.size(); i++) {
      int ch = (unsigned char)v[i];
      if (f.is_esc(ch) || ch == '\n' || (f.oend && ch == f.oend)) return true;
      // without an option-end character a comment starts at a comment character behind white space
      // (for the first character: behind the white space that may precede the value)
      if (!f.oend && f.is_com(ch) && (i == 0 ? !tight : isspace((unsigned char)v[i - 1]))) return true;
    }
    return false;
  }
  // quote character usable for the value (0 = not expressible): the closing quote must not follow a backslash
  int quote_for(const std::string &v) {
    if (v.back() == '\\') return 0;
    int cand[3], n = 0;
    for (int i = 0; i < 3; i++) if (f.esc[i]) cand[n++] = f.esc[i];
    if (!n) return 0;  // a format without quote characters: nothing can be quoted
    // prefer a quote character that does not occur in the value, otherwise escape the occurrences
    int start = (int)c.pick(n);
    for (int i = 0; i < n; i++) { int q = cand[(start + i) % n]; if (v.find((char)q) == std::string::npos) return q; }
    return cand[start];
  }
  void value_text(const std::string &v) {
    if (v.empty()) return;
    bool q = needs_quote(v) || (decorate && c.chance(40));
    int qc = q ? quote_for(v) : 0;
    if (!qc) { out += v; return; }  // (gen makes sure a value that needs quotes is expressible)
    ++quoted;
    if (v.find('\n') != std::string::npos) ++multiline;
    out += (char)qc;
    for (char ch : v) { if ((unsigned char)ch == qc) out += '\\'; out += ch; }
    out += (char)qc;
  }
  void option(const Node &n, bool inside, bool mandatory_prefix) {
    if (f.ostart && (mandatory_prefix || (decorate && c.flip()))) out += (char)f.ostart;
    out += n.name;
    out += ws();
    out += (char)f.assign;
    // a value that begins with a comment character (fg=#ff0000) can be written bare directly behind the assign character
    if (!n.value.empty() && !f.oend && f.is_com((unsigned char)n.value[0]) && !needs_quote(n.value, true) && (!decorate || c.flip())) {
      out += n.value;
      ++tight_comment_values;
    } else {
      out += ws();
      value_text(n.value);
    }
    if (f.oend) {
      out += ws();
      out += (char)f.oend;
      if (!decorate || c.flip()) eol(inside, false); else out += ws();
    } else {
      eol(inside, true);  // "name =#x" would read "#x" as the value: white space goes in front of a comment
    }
  }
  // '*': name { ... }
  void pre(const std::vector<Node> &v, bool inside) {
    for (auto &n : v) {
      gap(inside);
      if (!n.section && n.kids.empty()) { option(n, inside, false); continue; }
      out += n.name;
      out += ws();
      if (decorate && !n.name.empty() && c.chance(20)) { out += '\n'; gap(inside); }  // delimiter on a later line
      out += (char)f.sstart;
      if (!decorate || c.flip()) eol(true, false); else out += ws();
      pre(n.kids, true);
      gap(true);
      out += (char)f.send;
      if (!decorate || c.flip()) eol(inside, false); else out += ws();
    }
  }
  // 'x': <d>name ... ; ' ': [name] ... ; '_': options
  void flat(const std::vector<Node> &v) {
    bool prefix = f.family != '_';
    for (auto &n : v) {
      gap(false);
      if (!n.section) { option(n, false, prefix); continue; }
      out += (char)f.sstart;
      if (f.family == 'x') {
        out += ws();
        out += n.name;
        // the name must be followed by white space (or a comment) before the input ends
        if (decorate && c.flip()) {
          std::string w = ws(true);
          bool more = c.flip();
          // a comment directly behind the name ends the name as well
          if (more && f.ncom() && w[0] == '\t') { out += comment(); ++inner_comments; out += '\n'; }
          else { out += w; if (more) eol(true, false); }
        }
        else out += '\n';
      } else {
        out += ws();
        out += n.name;
        out += ws();
        out += (char)f.send;
        if (!decorate || c.flip()) eol(true, false); else out += ws();
      }
      for (auto &k : n.kids) { gap(true); option(k, true, prefix); }
    }
  }
  std::string render(const std::vector<Node> &t) {
    out.clear();
    if (f.family == '*') pre(t, false); else flat(t);
    gap(false);
    // the final line break is insignificant, except behind a section name of the 'x' style
    // ('x': the last section name needs white space or a comment behind it - fine when the last line holds a comment or ends in a blank)
    bool last_comment = false, droppable = f.family != 'x';
    if (!out.empty() && out.back() == '\n') {
      size_t ls = out.size() >= 2 ? out.rfind('\n', out.size() - 2) : std::string::npos;
      ls = ls == std::string::npos ? 0 : ls + 1;
      last_comment = last_comment_at != std::string::npos && last_comment_at >= ls;
      if (f.family == 'x' && (last_comment || (out.size() >= 2 && isspace((unsigned char)out[out.size() - 2]) && out[out.size() - 2] != '\n'))) droppable = true;
    }
    if (decorate && droppable && !out.empty() && out.back() == '\n' && c.chance(60)) { out.pop_back(); if (last_comment) ++ends_in_comment; }
    return out;
  }
};

// make every value expressible for the format: a value that needs quotes must not end in a backslash
inline void make_expressible(std::vector<Node> &t, const Fmt &f) {
  Ctx dummy(0, 0, false);
  Printer p(dummy, f, false);
  for (auto &n : t) {
    if (!n.value.empty() && n.value.back() == '\\' && p.needs_quote(n.value)) n.value += '_';
    make_expressible(n.kids, f);
  }
}

// ---------------------------------------------------------------------------------------------
// input source: counting getc over an exact-size heap buffer (ASan sees one byte too many)
struct Source {
  uint8_t *buf;
  size_t n, pos = 0, calls = 0, eof_probes = 0, probes_this_entry = 0, max_probes_per_entry = 0;
  long error_at = -1;  // index at which the stream reports a read error (-1) instead of data
  bool error_hit = false;
  Source(const std::string &doc) : n(doc.size()) {
    buf = (uint8_t *)malloc(n ? n : 1);
    if (n) memcpy(buf, doc.data(), n);
  }
  ~Source() { free(buf); }
  Source(const Source &) = delete;
  static int getc(void *arg) {
    Source *s = (Source *)arg;
    ++s->calls;
    if (s->error_at >= 0 && s->pos >= (size_t)s->error_at) { s->probe(); s->error_hit = true; return -1; }
    if (s->pos >= s->n) { s->probe(); return -2; }  // same convention as mpt_getchar_stdio / mpt_getchar_file
    return s->buf[s->pos++];
  }
  void probe() { ++eof_probes; if (++probes_this_entry > max_probes_per_entry) max_probes_per_entry = probes_this_entry; }
  void bind(mpt::parser_context *pc) { pc->src.getc = getc; pc->src.arg = this; pc->src.line = 1; }
};

// ---------------------------------------------------------------------------------------------
// library tree <-> model
inline bool node_value(const mpt::node *n, std::string &out) {
  out.clear();
  mpt::metatype *mt = n->_meta;
  if (!mt) return false;
  mpt::convertable *cv = (mpt::convertable *)mt;
  const char *s = 0;
  if (cv->convert('s', &s) >= 0) { if (s) out = s; return true; }
  struct iovec vec = {0, 0};
  if (cv->convert(vec_char_type(), &vec) >= 0) {
    if (vec.iov_base && vec.iov_len) out.assign((const char *)vec.iov_base, vec.iov_len);
    if (!out.empty() && out.back() == 0) out.pop_back();  // text buffers carry their terminator
    return true;
  }
  out = "<value not convertible to text>";
  return true;
}
inline void read_list(const mpt::node *first, std::vector<Node> &out, std::vector<const mpt::node *> *addr = 0, int depth = 0) {
  using namespace mpt;
  size_t guard = 0;
  for (const mpt::node *n = first; n && guard < 1000000 && depth < 60000; n = n->next, ++guard) {
    Node m;
    if (n->ident._len > 0) {
      const char *id = (const char *)mpt_identifier_data(&n->ident);
      size_t len = n->ident._len;
      if (n->ident._charset == mpt::identifier::UTF8 && len) --len;  // stored with terminator
      if (id) m.name.assign(id, len);
    }
    node_value(n, m.value);
    if (addr) addr->push_back(n);
    read_list(n->children, m.kids, addr, depth + 1);
    out.push_back(std::move(m));
  }
}

// structural walker: every child list is a proper doubly linked list whose members name their parent
// (data-only elements nest below each other, so a flat input can give a very deep tree: the bounds only
// stop a walk through cyclic links; inputs here stay far below them)
inline std::string walk(const mpt::node *parent, int depth = 0, size_t *budget = 0) {
  char b[160];
  size_t total = 0;
  if (!budget) budget = &total;
  if (depth > 60000) return "deeper than 60000 levels (cycle)";
  const mpt::node *prev = 0;
  size_t i = 0;
  for (const mpt::node *n = parent->children; n; prev = n, n = n->next, ++i) {
    if (++*budget > 2000000) return "more than 2000000 nodes reachable (cycle)";
    if (n->prev != prev) { snprintf(b, sizeof b, "depth %d child %zu: prev link does not name the predecessor", depth, i); return b; }
    if (n->parent != parent) { snprintf(b, sizeof b, "depth %d child %zu: parent link %s", depth, i, n->parent ? "names another node" : "is NULL"); return b; }
    std::string s = walk(n, depth + 1, budget);
    if (!s.empty()) return s;
  }
  return "";
}

// build a library tree below 'parent' with the same functions the parser's node handler uses
inline bool build(mpt::node *parent, const std::vector<Node> &v) {
  using namespace mpt;
  for (auto &m : v) {
    mpt::node *n = mpt_node_new(m.name.size() + 1);
    if (!n) return false;
    if (!m.name.empty() && !mpt_identifier_set(&n->ident, m.name.data(), (int)m.name.size())) { mpt_node_destroy(n); return false; }
    if (!m.value.empty()) {
      struct iovec vec = {(void *)m.value.data(), m.value.size()};
      CObj<mpt::value> val;
      val->_addr = &vec;
      val->_type = vec_char_type();
      n->_meta = mpt_meta_new(val);  // NULL for values the library cannot store: node stays without value
    }
    mpt_gnode_insert(parent, 0, n);
    if (!build(n, m.kids)) return false;
  }
  return true;
}

struct Root {  // zeroed root node whose children are released at scope end
  CObj<mpt::node> n;
  ~Root() { mpt::mpt_node_clear(n); }
  mpt::node *get() { return n.get(); }
};

}  // namespace cfgtree
