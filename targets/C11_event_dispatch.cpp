// C11 — event dispatch reaches exactly the registered handler            vp-link: core cxx
//
// G: history over two command tables — the table of a struct dispatch (D) and a stand-alone
//    "waiting replies" array (W, used like connection::_wait) — of
//      mpt_dispatch_set(id,h) / mpt_dispatch_set(id,NULL) / mpt_command_set(id,h|NULL) /
//      mpt_command_clear / mpt_command_get / mpt_command_reserve(width) (+ activate, release) /
//      mpt_dispatch_emit by id | by (fragmented) message | default (ev==NULL) /
//      mpt_dispatch_hash with a command text, directly or registered as handler of id 4
//      (MessageCommand) in the same dispatcher / mpt_dispatch_fini (+ re-init).
//    About three cases in ten drive the same model through the C++ wrapper of mpt++/event.cpp instead:
//    mpt::dispatch constructor/destructor, set_handler, handler, reserve, set_error, set_default.
//    ids: 0..7, 0x100000003 (low byte and low 32 bits collide with 3), mpt_hash() of a small
//    vocabulary of command words, ids handed out by reserve, arbitrary first bytes.
//    A registration is a pair (handler function, context pointer): 3 distinct handler functions
//    (fn = registration serial % 3) and context objects that are either fresh or — for the odd ids
//    1,3,5,7 and the large id — one of 3 pooled objects chosen by the id, so that a replace hands the
//    *same* context to the same or to another function, while other ids replace with a new context.
//    End-of-life and delivery are booked per (function, context). The fallback (_err) is a pair too.
//    What the invoked handler returns (flag combination | error) and whether it rewrites
//    ev->id is drawn per emit.
// O: model map id -> registration per table, see the checks (tags) below.
#include "vp.hpp"
#include "mpt_c.hpp"

#include <climits>

using namespace vp;
using namespace mpt;

typedef unique_array<command> cmd_array;  // _MPT_UARRAY_TYPE(command) for a C++ compiler; one buffer pointer, MPT_ARRAY_INIT == zero

enum { FDefault = 0x1, FFail = 0x2, FTerminate = 0x4, FRetry = 0x10000, FCtlError = 0x20000 };
static_assert((int)event::Default == FDefault && (int)event::Fail == FFail && (int)event::Terminate == FTerminate, "event flags");
static_assert((int)event::Retry == FRetry && (int)event::CtlError == FCtlError, "event flags");
static_assert(sizeof(cmd_array) == sizeof(void *), "array layout");
static_assert(sizeof(command) == 3 * sizeof(void *), "command layout");

static const uintptr_t kLargeId = (uintptr_t)0x100000003ull;
enum { MsgCommand = 0x04 };

// ---- harness objects -------------------------------------------------------------------------
enum { NFn = 3, NPool = 3 };
struct Hctx {                // context object handed to the library as arg; never freed before the case ends (tomb-stone)
  unsigned serial;
  bool pooled = false;
  bool null = false;         // stands for "no context": the library is handed arg == NULL and the handler function alone identifies the pair
  int live[NFn] = {0, 0, 0};  // registrations (fn, this) the library currently holds
  int ever[NFn] = {0, 0, 0};  // ... has ever accepted
  int eol[NFn] = {0, 0, 0};   // end-of-life calls that arrived through fn
  int calls[NFn] = {0, 0, 0};
};
struct Reg {                 // one registration = (handler function fn, context ctx) under an id
  unsigned serial;
  char table;                // 'D', 'W', 'F' (fallback)
  uintptr_t id;
  Hctx *ctx = 0;
  int fn = 0;
  bool registered = false;   // the library accepted it
  bool released = false;     // slot released by the harness itself (cmd = 0): no end-of-life call is due
};
struct Call {
  Hctx *o;
  int fn;
  bool eol;
  bool after_death;          // no registration (fn, o) was live when the call arrived
  uintptr_t id;
  const void *ev;
  const message *msg;
  reply_context *reply;
};
struct Plan {                // behaviour of the next invoked handler
  int ret = 0;
  bool rewrite = false;
  uintptr_t newid = 0;
};
struct CReplyVptr {          // C layout of reply_context (mptcore/event.h)
  int (*reply)(void *, const message *);
  void *(*defer)(void *);
};
struct CReply {
  const CReplyVptr *vptr;
  int replies;
};
static int creply_reply(void *p, const message *) { ++static_cast<CReply *>(p)->replies; return 0; }
static void *creply_defer(void *) { return 0; }
static const CReplyVptr kReplyVptr = {creply_reply, creply_defer};

struct World;
static World *g_w = 0;

enum { KHarness, KHashFwd, KLogReply };
struct Entry {
  int kind;
  Reg *reg;
};
struct Table {
  const char *name;
  cmd_array *arr;
  std::map<uintptr_t, Entry> live;
  bool by_set = false;       // buffer was created by mpt_command_set (typed) rather than by reserve (raw)
};

typedef int (*raw_handler)(void *, void *);
static event_handler_t handler_fn(int fn);
static inline raw_handler handler_raw(int fn) { return (raw_handler)handler_fn(fn); }

struct Exp {
  Reg *r;
  bool eol;
};

struct Word {
  std::string text;
  uintptr_t id;
};

struct World {
  Ctx &c;
  CObj<dispatch> d;
  CObj<cmd_array> w;
  Table T[2];
  bool d_init = false;
  bool cxx = false;          // drive D through the C++ wrapper (mpt++/event.cpp)
  uint8_t sel = 0;           // selector byte of the case
  int fb_kind = 0;           // 0 none, 1 harness object, 2 library default (unknownEvent)
  Reg *fb = 0;
  uintptr_t mdef = 0;        // model of dispatch._def
  std::vector<std::unique_ptr<Reg>> regs;
  std::vector<std::unique_ptr<Hctx>> ctxs;  // the first NPool are the shared ones
  std::vector<Call> log;
  Plan plan;
  CReply reply;
  std::vector<Word> vocab;
  bool touched = false;      // a replace or a slot reuse happened in D
  unsigned nops = 0;

  explicit World(Ctx &ctx) : c(ctx) {
    T[0].name = "D"; T[0].arr = reinterpret_cast<cmd_array *>(d.get());
    T[1].name = "W"; T[1].arr = w.get();
    reply.vptr = &kReplyVptr; reply.replies = 0;
    g_w = this;
    for (int i = 0; i < NPool; i++) newctx()->pooled = true;
    ctxs[0]->null = true;    // pooled context 1 is the NULL context (ids 1 and 7 in both tables, every second fallback)
    static const char *words[] = {"stop", "cont", "a", "read.file_0"};
    for (const char *s : words) add_word(s);
    add_word(std::string(127, 'y'));
    add_word(std::string(128, 'x'));
    add_word(std::string(129, 'z'));
    // siblings with bytes >= 0x80 (UTF-8 sequences of 2, 3, 4 bytes and a lone 0xff); appended so that a pick over the
    // doubled vocabulary selects the same base word for the byte values that selected it before
    auto times = [](const char *u, size_t n) { std::string r; while (n--) r += u; return r; };
    add_word("st\xc3\xb6p");
    add_word("gr\xc3\xb6\xc3\x9f" "e");
    add_word("\xff");
    add_word("pre\xe2\x82\xac.\xf0\x9f\x98\x80_0");
    add_word(times("\xc3\xbf", 63) + "y");
    add_word(times("\xc3\xbf", 64));
    add_word(times("\xe2\x82\xac", 43));
  }
  ~World() {                 // release everything also when a check has thrown
    if (d_init) { if (cxx) d->~dispatch(); else mpt_dispatch_fini(d); }
    mpt_command_clear(T[1].arr);
    mpt_array_clone(reinterpret_cast<array *>(T[1].arr), 0);
    g_w = 0;
  }
  // the id of a command name is taken in both documented ways, alternating: mpt_hash(name, length) and mpt_hash(name) (zero-terminated, length -1)
  void add_word(const std::string &s) { vocab.push_back({s, (vocab.size() & 1) ? mpt_hash(s.c_str(), -1) : mpt_hash(s.data(), (int)s.size())}); }
  // the id under which a handler for the command word is registered
  uintptr_t word_id(const std::string &w) {
    for (const Word &v : vocab) if (v.text == w) return v.id;
    return mpt_hash(w.data(), (int)w.size());
  }
  // metamorphic: the counted and the zero-terminated form of every hash function the library offers hash the same bytes
  void check_forms(const std::string &w) {
    if (w.empty() || w.find('\0') != std::string::npos) return;
    struct { const char *name; uintptr_t (*fn)(const void *, int); } H[] = {{"mpt_hash", mpt_hash}, {"mpt_hash_djb2", mpt_hash_djb2}, {"mpt_hash_smdb", mpt_hash_smdb}};
    bool high = false;
    for (unsigned char ch : w) if (ch >= 0x80) high = true;
    for (auto &h : H) {
      uintptr_t a = h.fn(w.c_str(), -1), b = h.fn(w.data(), (int)w.size());
      VP_CHECK(c, a == b, "hash-forms", "%s(\"%s\"): zero-terminated form gives %#zx, counted form (%zu bytes) gives %#zx", h.name, hex(w.data(), w.size(), 24).c_str(), (size_t)a, w.size(), (size_t)b);
    }
    if (high) c.label("hash:name-with-high-bytes");
  }

  Hctx *newctx() {
    ctxs.emplace_back(new Hctx);
    ctxs.back()->serial = (unsigned)ctxs.size();
    return ctxs.back().get();
  }
  // function and context are derived from draws that exist anyway (no draw of their own)
  Reg *newreg(char table, uintptr_t id) {
    regs.emplace_back(new Reg);
    Reg *r = regs.back().get();
    r->serial = (unsigned)regs.size();
    r->table = table;
    r->id = id;
    r->fn = (int)(r->serial % NFn);
    bool shared = table != 'F' && ((id < 8 && (id & 1)) || id == kLargeId);
    // a fallback is context-free (examples/io/dispatch.c style: _err.arg = 0, set_error(fn, 0)) for every second serial, phase from bit 2 of the selector byte
    bool nullfb = table == 'F' && ((((unsigned)sel >> 2) + r->serial + 1) & 1);
    r->ctx = nullfb ? ctxs[0].get() : shared ? ctxs[(size_t)((id >> 1) % NPool)].get() : newctx();
    return r;
  }
  void accept(Reg *r) {      // the library holds the pair now
    r->registered = true;
    if (r->ctx->null) c.label(r->table == 'F' ? "null-context:fallback" : "null-context:handler");
    ++r->ctx->live[r->fn];
    ++r->ctx->ever[r->fn];
  }
  static bool is(const Call &k, const Reg *r) { return r && k.o == r->ctx && k.fn == r->fn; }
  static void *arg_of(const Reg *r) { return r->ctx->null ? 0 : r->ctx; }  // what the library gets as context pointer
  std::string who(const Reg *r) {
    char b[96];
    snprintf(b, sizeof b, "#%u (%c id %#zx: fn%d, %scontext %u)", r->serial, r->table, (size_t)r->id, r->fn, r->ctx->null ? "NULL " : r->ctx->pooled ? "shared " : "", r->ctx->serial);
    return b;
  }
  command *slots(Table &t, size_t &n) {
    CBuf *b = cbuf(reinterpret_cast<array *>(t.arr));
    n = b ? b->used / sizeof(command) : 0;
    return b ? reinterpret_cast<command *>(b->data()) : 0;
  }
  bool has_hole(Table &t) {
    size_t n; command *s = slots(t, n);
    for (size_t i = 0; i < n; i++) if (!s[i].cmd) return true;
    return false;
  }
  size_t capacity(Table &t) { CBuf *b = cbuf(reinterpret_cast<array *>(t.arr)); return b ? b->size : 0; }

  // ---- oracle: the calls made by the library during one operation --------------------------
  void expect(const char *op, std::vector<Exp> exp) {
    std::vector<bool> used(exp.size(), false);
    for (const Call &k : log) {
      if (k.after_death && k.o->ever[k.fn])
        c.fail(k.eol ? "eol-twice" : "call-after-eol", "%s: (fn%d, context %u) %s although every registration of that pair had its end of life (eol calls through it: %d)", op, k.fn,
               k.o->serial, k.eol ? "finalised again" : "invoked", k.o->eol[k.fn]);
      if (k.after_death)
        c.fail("call-unregistered", "%s: (fn%d, context %u) was never accepted by the library as a pair but is called (%s)", op, k.fn, k.o->serial, k.eol ? "eol" : "event");
      bool ok = false;
      for (size_t i = 0; i < exp.size(); i++)
        if (!used[i] && is(k, exp[i].r) && exp[i].eol == k.eol) { used[i] = ok = true; break; }
      if (!ok)
        c.fail(k.eol ? "eol-unexpected" : "wrong-handler", "%s: unexpected %s through (fn%d, context %u), event id %#zx", op, k.eol ? "end-of-life call" : "invocation", k.fn, k.o->serial,
               (size_t)k.id);
    }
    for (size_t i = 0; i < exp.size(); i++)
      if (!used[i])
        c.fail(exp[i].eol ? "eol-missing" : "not-delivered", "%s: registration %s did not get its %s through its own function and context (%zu calls seen)", op, who(exp[i].r).c_str(),
               exp[i].eol ? "end-of-life call" : "event", log.size());
  }
  // ---- oracle: the table holds exactly the model (public struct command: id, cmd, arg) --------
  void check_table(Table &t, const char *op) {
    size_t n; command *s = slots(t, n);
    CBuf *b = cbuf(reinterpret_cast<array *>(t.arr));
    if (b) VP_CHECK(c, b->used % sizeof(command) == 0 && b->used <= b->size, "table-state", "%s: %s buffer used %zu size %zu", op, t.name, b->used, b->size);
    std::set<uintptr_t> seen;
    for (size_t i = 0; i < n; i++) {
      if (!s[i].cmd) continue;
      auto it = t.live.find(s[i].id);
      VP_CHECK(c, it != t.live.end(), "table-state", "%s: %s slot %zu is active with id %#zx which is not registered", op, t.name, i, (size_t)s[i].id);
      VP_CHECK(c, seen.insert(s[i].id).second, "table-state", "%s: %s has two active slots with id %#zx", op, t.name, (size_t)s[i].id);
      const Entry &e = it->second;
      if (e.kind == KHarness)
        VP_CHECK(c, s[i].arg == arg_of(e.reg) && (void *)s[i].cmd == (void *)handler_fn(e.reg->fn), "table-state", "%s: %s slot %zu id %#zx does not hold registration #%u", op, t.name, i,
                 (size_t)s[i].id, e.reg->serial);
      else if (e.kind == KHashFwd)
        VP_CHECK(c, (void *)s[i].cmd == (void *)mpt_dispatch_hash && s[i].arg == (void *)d.get(), "table-state", "%s: %s slot %zu id %#zx lost the hash forwarder", op, t.name, i, (size_t)s[i].id);
      else
        VP_CHECK(c, s[i].arg == (void *)s[i].id, "table-state", "%s: %s slot %zu id %#zx lost the default reply handler", op, t.name, i, (size_t)s[i].id);
    }
    VP_CHECK(c, seen.size() == t.live.size(), "table-state", "%s: %s has %zu active slots, %zu registrations are live", op, t.name, seen.size(), t.live.size());
  }
  void check_def(const char *op) {
    if (d_init) VP_CHECK(c, d->_def == mdef, "def-bookkeeping", "%s: dispatch._def is %#zx, expected %#zx", op, (size_t)d->_def, (size_t)mdef);
  }
  void after(const char *op) {
    check_table(T[0], op);
    check_table(T[1], op);
    check_def(op);
    if (capacity(T[0]) > 64) c.label("D:grown-past-first-allocation");
    if (capacity(T[0]) > 192) c.label("D:grown-twice");
  }

  // ---- draws ----------------------------------------------------------------------------------
  uintptr_t draw_id(Table &t, bool emit = false) {
    switch (emit ? c.weighted({4, 1, 1, 7, 1}) : c.weighted({8, 1, 3, 3, 1})) {
      case 0: return c.pick(8);
      case 1: return kLargeId;
      case 2: return vocab[c.pick(vocab.size())].id;
      case 3: {
        if (t.live.empty()) return c.pick(8);
        auto it = t.live.begin();
        std::advance(it, c.pick(t.live.size()));
        return it->first;
      }
      default: return c.u8();
    }
  }
  void draw_plan(uintptr_t cur) {
    static const int kErr[] = {-1, -2, -3, -4, -0x10, -0x11, -128, -129, -1000, INT_MIN};
    plan = Plan();
    switch (c.weighted({10, 1, 1, 3})) {
      case 0: plan.ret = (int)c.pick(8); break;
      case 1: plan.ret = (int)c.pick(8) | FRetry; break;
      case 2: plan.ret = (int)c.pick(8) | FCtlError; break;
      default: plan.ret = kErr[c.pick(sizeof kErr / sizeof *kErr)];
    }
    if (c.chance(64)) {
      plan.rewrite = true;
      switch (c.pick(5)) {
        case 0: plan.newid = 0; break;
        case 1: plan.newid = c.pick(8); break;
        case 2: plan.newid = kLargeId; break;
        case 3: plan.newid = vocab[c.pick(vocab.size())].id; break;
        default: plan.newid = cur + 1;
      }
    }
  }

  // ---- operations -----------------------------------------------------------------------------
  void op_init() {
    if (cxx) {
      new (d.get()) dispatch;  // mpt_dispatch_init: library default fallback
      fb = 0;
      fb_kind = 2;
      if (c.chance(200)) {
        log.clear();
        fb = newreg('F', 0);
        accept(fb);
        d->set_error(handler_fn(fb->fn), arg_of(fb));
        expect("set_error", {});
        fb_kind = 1;
      }
      d_init = true;
      mdef = 0;
      T[0].by_set = false;
      c.logf("mpt::dispatch constructed, fallback %s", fb_kind == 1 ? "harness object (set_error)" : "library default");
      return;
    }
    int style = (int)c.weighted({1, 5, 1, 2});
    if (style < 2) memset(d.get(), 0, sizeof(dispatch));  // MPT_DISPATCH_INIT
    else mpt_dispatch_init(d);
    fb = 0;
    if (style == 1 || style == 3) {  // like examples/io/dispatch.c: fill in _err
      fb = newreg('F', 0);
      accept(fb);
      d->_err.cmd = handler_fn(fb->fn);
      d->_err.arg = arg_of(fb);
      fb_kind = 1;
    } else fb_kind = style == 2 ? 2 : 0;
    d_init = true;
    mdef = 0;
    T[0].by_set = false;
    c.logf("init dispatch: %s, fallback %s", style < 2 ? "MPT_DISPATCH_INIT" : "mpt_dispatch_init()", fb_kind == 1 ? "harness object" : fb_kind == 2 ? "library default" : "none");
  }
  void note_create(Table &t, bool set) {
    if (!cbuf(reinterpret_cast<array *>(t.arr))) t.by_set = set;
  }
  void registered(Table &t, uintptr_t id, Entry e, bool hole, const char *op) {
    auto it = t.live.find(id);
    std::vector<Exp> exp;
    if (it != t.live.end()) {
      if (it->second.kind == KHarness) exp.push_back({it->second.reg, true});
      if (it->second.kind == KHarness && e.reg) {
        const Reg *o = it->second.reg;
        c.label(o->ctx != e.reg->ctx ? "replace:other-context" : o->fn != e.reg->fn ? "replace:same-context-other-function" : "replace:same-context-same-function");
      }
      c.label("replace");
      if (&t == &T[0]) touched = true;
    } else if (hole) {
      c.label("slot-reuse");
      if (&t == &T[0]) touched = true;
    }
    if (e.reg) accept(e.reg);
    expect(op, exp);
    t.live[id] = e;
  }
  void op_dispatch_set() {
    Table &t = T[0];
    uintptr_t id = draw_id(t);
    bool fwd = id == MsgCommand && c.chance(160);
    if (c.chance(24)) { id = MsgCommand; fwd = true; }
    Reg *r = fwd ? 0 : newreg('D', id);
    bool hole = has_hole(t), was = t.live.count(id);
    note_create(t, true);
    log.clear();
    int ret;
    if (cxx) ret = (fwd ? d->set_handler(id, (event_handler_t)mpt_dispatch_hash, d.get()) : d->set_handler(id, handler_fn(r->fn), arg_of(r))) ? 0 : -1;
    else ret = fwd ? mpt_dispatch_set(d, id, (event_handler_t)mpt_dispatch_hash, d.get()) : mpt_dispatch_set(d, id, handler_fn(r->fn), arg_of(r));
    c.logf("mpt_dispatch_set(D, %#zx, %s) = %d  (%s)", (size_t)id, fwd ? "mpt_dispatch_hash" : "handler", ret, was ? "id is registered" : "id is free");
    if (r) c.logf("  new registration %s", who(r).c_str());
    if (ret >= 0) registered(t, id, Entry{fwd ? KHashFwd : KHarness, r}, hole, "dispatch_set");
    else {
      expect("dispatch_set(refused)", {});
      c.label(was ? "dispatch_set:refused-used-id" : "dispatch_set:refused-free-id");
    }
    if (ret >= 0) c.label(was ? "dispatch_set:accepted-used-id" : "dispatch_set:ok");
    after("dispatch_set");
  }
  void removed(Table &t, uintptr_t id, const char *op) {
    auto it = t.live.find(id);
    std::vector<Exp> exp;
    if (it != t.live.end()) {
      if (it->second.kind == KHarness) exp.push_back({it->second.reg, true});
      t.live.erase(it);
    }
    expect(op, exp);
  }
  void op_dispatch_clear() {
    Table &t = T[0];
    uintptr_t id = draw_id(t);
    bool was = t.live.count(id);
    log.clear();
    int ret = cxx ? (d->set_handler(id, 0, 0) ? 0 : -1) : mpt_dispatch_set(d, id, 0, 0);
    c.logf("mpt_dispatch_set(D, %#zx, NULL) = %d  (%s)", (size_t)id, ret, was ? "id is registered" : "id is free");
    if (was && ret >= 0) { removed(t, id, "dispatch_set(NULL)"); c.label("dispatch_clear:ok"); }
    else {
      expect("dispatch_set(NULL)", {});
      c.label(was ? "dispatch_clear:refused" : "dispatch_clear:absent");
    }
    after("dispatch_set(NULL)");
  }
  void op_command_set(Table &t) {
    uintptr_t id = draw_id(t);
    bool del = c.chance(64);
    bool fwd = !del && &t == &T[0] && id == MsgCommand && c.chance(128);
    Reg *r = (del || fwd) ? 0 : newreg(t.name[0], id);
    bool hole = has_hole(t), was = t.live.count(id);
    note_create(t, true);
    log.clear();
    int ret;
    if (del) ret = mpt_command_set(t.arr, id, 0, 0);
    else if (fwd) ret = mpt_command_set(t.arr, id, (int (*)(void *, void *))mpt_dispatch_hash, d.get());
    else ret = mpt_command_set(t.arr, id, handler_raw(r->fn), arg_of(r));
    c.logf("mpt_command_set(%s, %#zx, %s) = %d  (%s)", t.name, (size_t)id, del ? "NULL" : fwd ? "mpt_dispatch_hash" : "handler", ret, was ? "id is registered" : "id is free");
    if (r) c.logf("  new registration %s", who(r).c_str());
    if (del) {
      if (was && ret >= 0) { removed(t, id, "command_set(NULL)"); c.label("command_set:delete"); }
      else { expect("command_set(NULL)", {}); c.label(was ? "command_set:delete-refused" : "command_set:delete-absent"); }
    } else if (ret >= 0) {
      c.label(was ? "command_set:replace" : "command_set:add");
      registered(t, id, Entry{fwd ? KHashFwd : KHarness, r}, hole && !was, "command_set");
    } else {
      expect("command_set(refused)", {});
      c.label("command_set:refused");
    }
    after("command_set");
  }
  void op_command_clear(Table &t) {
    std::vector<Exp> exp;
    for (auto &e : t.live) if (e.second.kind == KHarness) exp.push_back({e.second.reg, true});
    log.clear();
    mpt_command_clear(t.arr);
    c.logf("mpt_command_clear(%s): %zu registrations were live", t.name, t.live.size());
    if (t.live.size() >= 2) c.label("clear:live>=2");
    t.live.clear();
    expect("command_clear", exp);
    c.label("command_clear");
    after("command_clear");
  }
  void op_get(Table &t) {
    uintptr_t id = draw_id(t);
    log.clear();
    command *cmd = (cxx && &t == &T[0]) ? d->handler(id) : mpt_command_get(t.arr, id);
    auto it = t.live.find(id);
    c.logf("mpt_command_get(%s, %#zx) = %s  (%s)", t.name, (size_t)id, cmd ? "entry" : "NULL", it != t.live.end() ? "id is registered" : "id is free");
    expect("command_get", {});
    if (it == t.live.end()) VP_CHECK(c, !cmd, "get-mismatch", "mpt_command_get(%s, %#zx) finds an entry (id %#zx) although the id is not registered", t.name, (size_t)id, (size_t)cmd->id);
    else {
      VP_CHECK(c, cmd && cmd->cmd && cmd->id == id, "get-mismatch", "mpt_command_get(%s, %#zx) does not find the registered entry", t.name, (size_t)id);
      if (it->second.kind == KHarness) VP_CHECK(c, cmd->arg == arg_of(it->second.reg) && cmd->cmd == handler_raw(it->second.reg->fn), "get-mismatch", "mpt_command_get(%s, %#zx) returns another registration", t.name, (size_t)id);
    }
    c.label(cmd ? "get:found" : "get:absent");
  }
  static uint64_t width_limit(size_t w) { return w >= 8 ? (uint64_t)INT64_MAX : ((uint64_t)1 << (8 * w - 1)) - 1; }
  // one reservation; returns the model entry id or 0
  uintptr_t reserve_one(Table &t, size_t width, bool activate) {
    uintptr_t top = 0;
    for (auto &e : t.live) top = std::max(top, e.first);
    note_create(t, false);
    log.clear();
    command *cmd = (cxx && &t == &T[0]) ? d->reserve(width) : mpt_command_reserve(t.arr, width);
    expect("command_reserve", {});
    if (!cmd) {
      c.logf("mpt_command_reserve(%s, %zu) = NULL  (%zu live)", t.name, width, t.live.size());
      c.label(width ? "reserve:refused" : "reserve:width0");
      return 0;
    }
    uintptr_t id = cmd->id;
    c.logf("mpt_command_reserve(%s, %zu) = id %#zx  (%zu live)", t.name, width, (size_t)id, t.live.size());
    VP_CHECK(c, width != 0, "reserve-id", "mpt_command_reserve(%s, 0) hands out id %#zx", t.name, (size_t)id);
    VP_CHECK(c, id > 0, "reserve-id", "mpt_command_reserve(%s, %zu) hands out id 0", t.name, width);
    VP_CHECK(c, (uint64_t)id <= width_limit(width), "reserve-id", "mpt_command_reserve(%s, %zu) hands out id %#zx, more than %zu bytes less the reply bit hold", t.name, width, (size_t)id, width);
    VP_CHECK(c, !t.live.count(id), "reserve-id", "mpt_command_reserve(%s, %zu) hands out id %#zx which is still live", t.name, width, (size_t)id);
    VP_CHECK(c, cmd->cmd != 0, "reserve-id", "reserved entry is not active");
    if (id < top) c.label("reserve:reused-low-id");
    if ((uint64_t)id == width_limit(width)) c.label("reserve:id==limit");
    if (activate) {  // as mpt_connection_await does
      Reg *r = newreg(t.name[0], id);
      accept(r);
      cmd->cmd = handler_raw(r->fn);
      cmd->arg = arg_of(r);
      t.live[id] = Entry{KHarness, r};
      c.logf("  activated as registration %s", who(r).c_str());
    } else t.live[id] = Entry{KLogReply, 0};
    c.label("reserve:ok");
    return id;
  }
  size_t draw_width() {
    switch (c.weighted({8, 2, 4, 1, 1})) {
      case 0: return 1;
      case 1: return 2;
      case 2: return c.range(3, 8);
      case 3: return 0;
      default: return c.range(9, 12);
    }
  }
  void release_direct(Table &t, uintptr_t id) {  // as mpt_stream_sync does: the owner of the slot clears cmd
    command *cmd = mpt_command_get(t.arr, id);
    auto it = t.live.find(id);
    VP_CHECK(c, cmd && it != t.live.end(), "get-mismatch", "mpt_command_get(%s, %#zx) does not find the live entry to release", t.name, (size_t)id);
    if (it->second.kind == KHarness) {
      VP_CHECK(c, cmd->arg == arg_of(it->second.reg) && cmd->cmd == handler_raw(it->second.reg->fn), "get-mismatch", "mpt_command_get(%s, %#zx) returns another registration", t.name, (size_t)id);
      it->second.reg->released = true;
      --it->second.reg->ctx->live[it->second.reg->fn];
    }
    cmd->cmd = 0;
    t.live.erase(it);
    c.logf("release %s id %#zx (cmd = 0)", t.name, (size_t)id);
    c.label("release:direct");
  }
  void op_reserve(Table &t) {
    size_t width = draw_width();
    // the default handler of a reservation takes a reply message, not an event: only W keeps it
    bool activate = &t == &T[0] || !c.chance(24);
    reserve_one(t, width, activate);
    after("command_reserve");
  }
  void op_release(Table &t) {
    if (t.live.empty()) return;
    auto it = t.live.begin();
    std::advance(it, c.pick(t.live.size()));
    release_direct(t, it->first);
    after("release");
  }
  void op_burst() {  // many reservations in a row: reach the width limit of 1-byte ids, wrap, find free low ids
    Table &t = T[1];
    size_t width = c.weighted({6, 1}) ? 2 : 1;
    size_t n = c.near({8, 126, 127, 128, 135}, 150);
    unsigned keep = (unsigned)c.choose<unsigned>({256, 256, 192, 64});  // chance (of 256) that a reservation stays live
    uint8_t salt = c.u8();
    c.logf("burst of %zu reservations on W, width %zu, keep %u/256", n, width, keep);
    size_t refused = 0;
    for (size_t i = 0; i < n && refused < 3; i++) {
      uintptr_t id = reserve_one(t, width, true);
      refused = id ? 0 : refused + 1;
      check_table(t, "burst");
      unsigned roll = (unsigned)((i * 167 + salt * 13 + (i >> 3)) & 0xff);
      if (id && roll >= keep) release_direct(t, id);
    }
    c.label("reserve:burst");
    after("burst");
  }

  // ---- messages ----------------------------------------------------------------------------------
  struct Msg {
    std::vector<std::unique_ptr<uint8_t[]>> parts;
    std::vector<struct iovec> iov;
    message m;
    size_t total = 0;
  };
  // split bytes into exact-size heap fragments at drawn cut points (empty fragments allowed)
  void build(Msg &out, const std::vector<uint8_t> &bytes) {
    std::vector<size_t> lens;
    size_t left = bytes.size();
    int mode = (int)c.weighted({3, 3, 1});  // contiguous / a few fragments / byte-wise
    while (left) {
      size_t n = mode == 0 ? left : mode == 2 ? 1 : c.range(0, std::min<size_t>(left, 6));
      if (mode == 1 && c.chance(40)) n = left;
      lens.push_back(n);
      left -= n;
      if (lens.size() > 400) { lens.push_back(left); left = 0; }
    }
    if (lens.empty() || c.chance(20)) lens.push_back(0);
    size_t off = 0;
    for (size_t n : lens) {
      out.parts.emplace_back(new uint8_t[n ? n : 1]);
      if (n) memcpy(out.parts.back().get(), bytes.data() + off, n);
      else out.parts.back()[0] = 0xEE;
      off += n;
    }
    for (size_t i = 1; i < lens.size(); i++) out.iov.push_back({out.parts[i].get(), lens[i]});
    out.m.base = out.parts[0].get();
    out.m.used = lens[0];
    out.m.cont = out.iov.empty() ? 0 : out.iov.data();
    out.m.clen = out.iov.size();
    out.total = bytes.size();
    if (lens.size() > 1) c.label("msg:fragmented");
    std::string s;
    for (size_t n : lens) s += std::to_string(n) + " ";
    c.logf("  message %zu bytes %s in fragments of %s", bytes.size(), hex(bytes.data(), bytes.size(), 40).c_str(), s.c_str());
  }
  // command text; returns false when the text carries no command word
  struct Text {
    std::vector<uint8_t> bytes;  // header + text
    bool has_word = false;
    std::string word;
    bool split = false;       // the word does not lie in one fragment (set by word_split)
    // mpt_dispatch_hash copies a word that is spread over fragments into a 128 byte buffer and documents
    // "large unaligned text command" as a refusal: such an event may be refused, never misdelivered
    bool may_refuse() const { return has_word && split && word.size() > 128; }
  };
  void word_split(Text &t, const Msg &m) {
    if (!t.has_word) return;
    size_t pos = 2, end = 2 + t.word.size(), off = 0;
    std::vector<size_t> lens;
    lens.push_back(m.m.used);
    for (auto &v : m.iov) lens.push_back(v.iov_len);
    for (size_t n : lens) { if (off < end && off + n > pos && !(off <= pos && off + n >= end)) t.split = true; off += n; }
    if (t.split) c.label("hash:word-in-several-fragments");
    if (t.word.size() >= 127) c.label("hash:word>=127");
    if (t.split && t.word.size() == 128) c.label("hash:split-word-of-128");
    if (t.may_refuse()) c.label("hash:split-word>128");
  }
  Text draw_text(bool command_type) {
    Text t;
    int sep;
    uint8_t type = MsgCommand;
    if (command_type || c.chance(224)) sep = c.choose<int>({0, 0, ' ', ' ', ':', ','});
    else { type = c.choose<uint8_t>({0x00, 0x05, 0x06, 0x20}); sep = 0; }  // other message types: text is zero-delimited, the argument byte is not a separator
    int8_t argbyte = type == MsgCommand ? (int8_t)sep : (int8_t)c.u8();
    t.bytes.push_back(type);
    t.bytes.push_back((uint8_t)argbyte);
    switch (c.weighted({1, 10, 3})) {
      case 0: return t;  // header only
      case 1: {
        t.word = vocab[c.pick(vocab.size())].text;
        std::vector<size_t> livew;  // prefer words whose hash is registered
        for (size_t i = 0; i < vocab.size(); i++) if (T[0].live.count(vocab[i].id)) livew.push_back(i);
        if (!livew.empty() && c.chance(160)) t.word = vocab[livew[c.pick(livew.size())]].text;
        break;
      }
      default: {
        size_t n = c.near({1, 4, 127, 128, 129}, 200);
        if (!n) n = 1;
        static const char A[] = "abcdefghijklmnopqrstuvwxyz0123456789_.";
        // the upper half of the doubled range gives the same letter with the top bit set (bytes 0xae..0xfa)
        for (size_t i = 0; i < n; i++) { size_t v = c.pick(2 * (sizeof A - 1)); char ch = A[v % (sizeof A - 1)]; t.word += v >= sizeof A - 1 ? (char)(ch | 0x80) : ch; }
      }
    }
    t.has_word = true;
    t.bytes.insert(t.bytes.end(), t.word.begin(), t.word.end());
    size_t nargs = c.weighted({3, 2, 1});
    if (nargs == 0 && sep == 0 && c.flip()) t.bytes.push_back(0);
    for (size_t a = 0; a < nargs; a++) {
      t.bytes.push_back((uint8_t)sep);
      size_t n = c.range(1, 5);
      for (size_t i = 0; i < n; i++) t.bytes.push_back('0' + (uint8_t)c.pick(10));
      if (sep == 0 && a + 1 == nargs && c.flip()) t.bytes.push_back(0);
    }
    return t;
  }

  // ---- emit ----------------------------------------------------------------------------------------
  Entry *target_of(uintptr_t id) {
    auto it = T[0].live.find(id);
    return it == T[0].live.end() ? 0 : &it->second;
  }
  // the harness object the library has to invoke for an event that resolves to id: registration, else fallback, else nobody
  Reg *deliver_to(uintptr_t id, const char **how) {
    Entry *e = target_of(id);
    if (e && e->kind == KHarness) { *how = "registered"; return e->reg; }
    if (e) { *how = "library"; return 0; }
    if (fb_kind == 1) { *how = "fallback"; return fb; }
    *how = fb_kind == 2 ? "library-fallback" : "nobody";
    return 0;
  }
  void check_seen(const char *op, uintptr_t id, const message *msg, bool check_msg) {
    for (const Call &k : log) {
      if (k.eol) continue;
      VP_CHECK(c, k.id == id, "event-id", "%s: handler (fn%d, context %u) saw ev->id %#zx, expected %#zx", op, k.fn, k.o->serial, (size_t)k.id, (size_t)id);
      if (check_msg) VP_CHECK(c, k.msg == msg, "event-id", "%s: handler (fn%d, context %u) saw another message pointer", op, k.fn, k.o->serial);
    }
  }
  // result of mpt_dispatch_emit after the harness handler returned plan.ret for an event whose id was `id`
  void emit_result(const char *op, int ret, uintptr_t id, bool via_hash) {
    uintptr_t fin = plan.rewrite ? plan.newid : id;
    if (plan.ret < 0) {
      c.label("emit:handler-error");
      if (!via_hash) {
        VP_CHECK(c, ret < 0, "emit-return", "%s: handler failed with %d, mpt_dispatch_emit returns %d", op, plan.ret, ret);
        check_def(op);  // unchanged
      } else {
        // mpt_dispatch_hash turns the error into a failed event; the bookkeeping follows what it reports
        VP_CHECK(c, ret < 0 || (ret & FFail), "emit-return", "%s: handler behind mpt_dispatch_hash failed with %d, mpt_dispatch_emit returns %#x", op, plan.ret, ret);
        mdef = d->_def;
      }
      return;
    }
    if (plan.ret & FDefault) { mdef = fin; c.label(fin ? "emit:default-set" : "emit:default-cleared"); }
    int want = (plan.ret & ~FDefault) | (mdef ? FDefault : 0);
    VP_CHECK(c, d->_def == mdef, "def-bookkeeping", "%s: handler returned %#x with ev->id %#zx: dispatch._def is %#zx, expected %#zx", op, plan.ret, (size_t)fin, (size_t)d->_def, (size_t)mdef);
    VP_CHECK(c, ret == want, "emit-return", "%s: handler returned %#x, default id is %#zx: mpt_dispatch_emit returns %#x, expected %#x", op, plan.ret, (size_t)mdef, ret, want);
  }
  // nobody of the harness was involved (library fallback, no fallback, hash forwarder that refused the message)
  void emit_unobserved(const char *op, int ret, bool must_fail) {
    if (must_fail) {
      VP_CHECK(c, ret < 0, "emit-return", "%s: no handler and no fallback, mpt_dispatch_emit returns %#x", op, ret);
      check_def(op);
      return;
    }
    mdef = d->_def;  // decided by library code; only the consistency of the report is demanded
    if (ret >= 0) VP_CHECK(c, !(ret & FDefault) == !mdef, "emit-return", "%s: returns %#x but dispatch._def is %#zx", op, ret, (size_t)mdef);
  }
  void emit_event(const char *op, event *ev, uintptr_t id, const Text *text) {
    const char *how = "";
    const message *msg = ev->msg;
    Entry *e = target_of(id);
    bool via_hash = e && e->kind == KHashFwd;
    uintptr_t seen_id = id;
    Reg *want = 0;
    bool refused_by_hash = false;
    if (via_hash) {
      // id 4 is handled by mpt_dispatch_hash(D, ev): the event goes to the handler registered for the hash of the command word
      if (!text || !text->has_word) { refused_by_hash = true; how = "hash-forwarder(no text)"; }
      else {
        seen_id = word_id(text->word);
        want = deliver_to(seen_id, &how);
        Entry *e2 = target_of(seen_id);
        if (e2 && e2->kind != KHarness) how = "library";
      }
      c.label("emit:via-hash-forwarder");
    } else want = deliver_to(id, &how);
    draw_plan(seen_id);
    c.logf("  -> %s%s; handler plan: return %d (%#x)%s", how, want ? (" #" + std::to_string(want->serial)).c_str() : "", plan.ret, plan.ret,
           plan.rewrite ? (" and set ev->id = " + std::to_string((size_t)plan.newid)).c_str() : "");
    log.clear();
    int ret = mpt_dispatch_emit(d, ev);
    c.logf("  mpt_dispatch_emit = %d (%#x), _def %#zx, ev->id %#zx, replies %d", ret, ret, (size_t)d->_def, (size_t)ev->id, reply.replies);
    if (want && via_hash && text->may_refuse() && log.empty()) {
      VP_CHECK(c, ret < 0 || (ret & FFail), "emit-return", "%s: the forwarder refused the long fragmented command word but mpt_dispatch_emit returns %#x", op, ret);
      emit_unobserved(op, ret, false);
      c.label("emit:long-word-refused");
    } else if (want) {
      expect(op, {{want, false}});
      check_seen(op, seen_id, msg, true);
      emit_result(op, ret, seen_id, via_hash);
      c.label(want == fb ? "emit:to-fallback" : "emit:to-registered");
      if (want->ctx->null) c.label("emit:to-null-context");
      if (want != fb && touched) c.nontrivial();
      if (want != fb && touched) c.label("emit:after-replace-or-reuse");
    } else {
      expect(op, {});
      bool nobody = !refused_by_hash && !strcmp(how, "nobody");
      if (nobody && via_hash) {  // the forwarder found neither handler nor fallback: it must not report success
        VP_CHECK(c, ret < 0 || (ret & FFail), "emit-return", "%s: no handler and no fallback for the command word, mpt_dispatch_emit returns %#x", op, ret);
        emit_unobserved(op, ret, false);
      } else emit_unobserved(op, ret, nobody);
      c.label(nobody ? "emit:nobody" : "emit:library-handler");
    }
    after(op);
  }
  void op_emit_id() {
    uintptr_t id = draw_id(T[0], true);
    event ev;
    ev.id = id;
    ev.reply = c.chance(224) ? reinterpret_cast<reply_context *>(&reply) : 0;
    c.logf("emit by id %#zx%s", (size_t)id, ev.reply ? "" : " (no reply context)");
    c.label("op:emit-id");
    emit_event("emit(id)", &ev, id, 0);
  }
  void op_emit_msg() {
    Text text;
    std::vector<uint8_t> bytes;
    bool is_text = false;
    if (c.chance(target_of(MsgCommand) && target_of(MsgCommand)->kind == KHashFwd ? 160 : 24)) {
      text = draw_text(true);
      bytes = text.bytes;
      is_text = true;
    } else {
      uint8_t first;
      switch (c.weighted({6, 2, 1, 3})) {
        case 0: first = (uint8_t)c.pick(8); break;
        case 1: first = (uint8_t)(kLargeId & 0xff); break;
        case 2: first = c.u8(); break;
        default: {
          first = (uint8_t)c.pick(8);
          std::vector<uint8_t> cand;
          for (auto &e : T[0].live) if (e.first < 256) cand.push_back((uint8_t)e.first);
          if (!cand.empty()) first = cand[c.pick(cand.size())];
        }
      }
      Entry *e = target_of(first);
      if (e && e->kind == KHashFwd) {  // routed to mpt_dispatch_hash: the payload is a command text by contract
        text = draw_text(true);
        bytes = text.bytes;
        is_text = true;
      } else {
        bytes.push_back(first);
        size_t n = c.pick(6);
        for (size_t i = 0; i < n; i++) bytes.push_back(c.u8());
        if (c.chance(10)) bytes.clear();
      }
    }
    Msg m;
    event ev;
    ev.id = c.flip() ? 0 : draw_id(T[0]);  // overwritten by the first byte of the message
    ev.reply = c.chance(224) ? reinterpret_cast<reply_context *>(&reply) : 0;
    c.logf("emit by message, ev->id preset to %#zx", (size_t)ev.id);
    build(m, bytes);
    if (is_text) word_split(text, m);
    ev.msg = &m.m;
    c.label("op:emit-msg");
    if (bytes.empty()) {
      // no first byte, hence no id: nothing registered may be invoked
      log.clear();
      int ret = mpt_dispatch_emit(d, &ev);
      c.logf("  empty message: mpt_dispatch_emit = %d", ret);
      for (const Call &k : log) VP_CHECK(c, is(k, fb) && !k.eol, "wrong-handler", "emit(empty message): (fn%d, context %u) invoked", k.fn, k.o->serial);
      VP_CHECK(c, log.size() <= 1, "wrong-handler", "emit(empty message): %zu calls", log.size());
      mdef = d->_def;
      c.label("emit:empty-message");
      after("emit(empty message)");
      return;
    }
    emit_event("emit(msg)", &ev, bytes[0], is_text ? &text : 0);
    if (is_text && text.has_word) check_forms(text.word);
  }
  void op_emit_default() {
    c.logf("emit default (ev == NULL), default id %#zx", (size_t)mdef);
    c.label("op:emit-default");
    Entry *e = mdef ? target_of(mdef) : 0;
    draw_plan(mdef);
    log.clear();
    if (!mdef) {
      int ret = mpt_dispatch_emit(d, 0);
      c.logf("  mpt_dispatch_emit(NULL) = %d", ret);
      expect("emit(default)", {});
      VP_CHECK(c, ret < 0 || !(ret & FDefault), "emit-return", "emit(default): no default event, returns %#x", ret);
      c.label("emit:default-none");
    } else if (e && e->kind == KHarness) {
      c.logf("  -> registered #%u; handler plan: return %d (%#x)%s", e->reg->serial, plan.ret, plan.ret, plan.rewrite ? " and rewrite ev->id" : "");
      Reg *want = e->reg;
      int ret = mpt_dispatch_emit(d, 0);
      c.logf("  mpt_dispatch_emit(NULL) = %d (%#x), _def %#zx", ret, ret, (size_t)d->_def);
      expect("emit(default)", {{want, false}});
      check_seen("emit(default)", mdef, 0, true);
      emit_result("emit(default)", ret, mdef, false);
      c.label("emit:default-live");
      if (touched) { c.nontrivial(); c.label("emit:after-replace-or-reuse"); }
    } else if (e) {
      int ret = mpt_dispatch_emit(d, 0);
      c.logf("  library handler; mpt_dispatch_emit(NULL) = %d (%#x), _def %#zx", ret, ret, (size_t)d->_def);
      expect("emit(default)", {});
      emit_unobserved("emit(default)", ret, false);
      c.label("emit:default-library");
    } else {
      // the default id has no handler (cleared since, or a handler put an unregistered id into ev->id):
      // the code documents "bad default command" = error and forgets the id; nothing registered may run
      int ret = mpt_dispatch_emit(d, 0);
      c.logf("  stale default; mpt_dispatch_emit(NULL) = %d (%#x), _def %#zx", ret, ret, (size_t)d->_def);
      for (const Call &k : log) VP_CHECK(c, is(k, fb) && !k.eol, "wrong-handler", "emit(default): default id %#zx is not registered but (fn%d, context %u) is invoked", (size_t)mdef, k.fn, k.o->serial);
      VP_CHECK(c, log.size() <= 1, "wrong-handler", "emit(default, stale): %zu calls", log.size());
      VP_CHECK(c, d->_def == 0 || d->_def == mdef || !log.empty(), "def-bookkeeping", "emit(default, stale %#zx): _def becomes %#zx", (size_t)mdef, (size_t)d->_def);
      mdef = d->_def;
      c.label("emit:default-stale");
    }
    after("emit(default)");
  }
  void op_hash_direct() {
    Text text = draw_text(false);
    Msg m;
    event ev;
    ev.id = c.flip() ? 0 : draw_id(T[0]);
    ev.reply = c.chance(224) ? reinterpret_cast<reply_context *>(&reply) : 0;
    bool ascii = true;
    for (unsigned char ch : text.word) if (ch < 0x20 || ch > 0x7e) ascii = false;
    c.logf("mpt_dispatch_hash, ev->id preset to %#zx, word %s%s%s", (size_t)ev.id, ascii ? "\"" : "hex ", ascii ? text.word.c_str() : hex(text.word.data(), text.word.size(), 48).c_str(), ascii ? "\"" : "");
    build(m, text.bytes);
    ev.msg = &m.m;
    c.label("op:hash");
    word_split(text, m);
    uintptr_t id = text.has_word ? word_id(text.word) : 0;
    const char *how = "";
    Reg *want = 0;
    Entry *e = text.has_word ? target_of(id) : 0;
    if (text.has_word) want = deliver_to(id, &how);
    draw_plan(id);
    c.logf("  hash id %#zx -> %s%s; handler plan: return %d (%#x)%s", (size_t)id, text.has_word ? how : "no word", want ? (" #" + std::to_string(want->serial)).c_str() : "", plan.ret,
           plan.ret, plan.rewrite ? " and rewrite ev->id" : "");
    log.clear();
    int ret = mpt_dispatch_hash(d, &ev);
    c.logf("  mpt_dispatch_hash = %d (%#x), ev->id %#zx", ret, ret, (size_t)ev.id);
    if (!text.has_word) {
      // no command word, no id: nothing registered may be invoked
      for (const Call &k : log) VP_CHECK(c, is(k, fb) && !k.eol, "wrong-handler", "hash(no word): (fn%d, context %u) invoked", k.fn, k.o->serial);
      VP_CHECK(c, log.size() <= 1, "wrong-handler", "hash(no word): %zu calls", log.size());
      c.label("hash:no-word");
    } else if (want && text.may_refuse() && log.empty()) {
      VP_CHECK(c, ret < 0 || (ret & FFail), "hash-return", "hash: long fragmented command word refused but mpt_dispatch_hash returns %#x", ret);
      c.label("hash:long-word-refused");
    } else if (want) {
      expect("hash", {{want, false}});
      check_seen("hash", id, &m.m, true);
      // "\return result of executed command"
      if (plan.ret >= 0) VP_CHECK(c, ret == plan.ret, "hash-return", "hash: handler returned %#x, mpt_dispatch_hash returns %#x", plan.ret, ret);
      else VP_CHECK(c, ret < 0 || (ret & FFail), "hash-return", "hash: handler failed with %d, mpt_dispatch_hash returns %#x", plan.ret, ret);
      c.label(want == fb ? "hash:to-fallback" : "hash:to-registered");
      if (want != fb && touched) { c.nontrivial(); c.label("emit:after-replace-or-reuse"); }
    } else {
      expect("hash", {});
      if (!e && fb_kind == 0) VP_CHECK(c, ret < 0 || (ret & FFail), "hash-return", "hash: no handler and no fallback, mpt_dispatch_hash returns %#x", ret);
      c.label("hash:unobserved");
    }
    mdef = d->_def;  // mpt_dispatch_hash by itself keeps no default-event books
    after("hash");
    if (text.has_word) check_forms(text.word);
  }
  void op_fini() {
    std::vector<Exp> exp;
    for (auto &e : T[0].live) if (e.second.kind == KHarness) exp.push_back({e.second.reg, true});
    size_t nlive = exp.size();
    if (fb_kind == 1) exp.push_back({fb, true});
    log.clear();
    if (cxx) d->~dispatch();
    else mpt_dispatch_fini(d);
    d_init = false;
    c.logf("mpt_dispatch_fini: %zu harness registrations were live, fallback %s", nlive, fb_kind == 1 ? "harness object" : "other");
    T[0].live.clear();
    expect("dispatch_fini", exp);
    VP_CHECK(c, !cbuf(reinterpret_cast<array *>(T[0].arr)) && !d->_def && !d->_err.cmd, "table-state", "dispatch_fini leaves buffer %p, _def %#zx, _err.cmd %p",
             (void *)cbuf(reinterpret_cast<array *>(T[0].arr)), (size_t)d->_def, (void *)d->_err.cmd);
    mdef = 0;
    fb = 0;
    fb_kind = 0;
    c.label("fini");
    if (nlive >= 2) { c.label("fini:live>=2"); c.nontrivial(); }
    for (const Exp &e : exp) if (e.r->ctx->null) c.label(e.r->table == 'F' ? "fini:null-context-fallback" : "fini:null-context-handler");
  }
  // ---- C++ wrapper only ------------------------------------------------------------------------------
  void op_set_error() {
    Reg *old = fb_kind == 1 ? fb : 0;
    Reg *r = newreg('F', 0);
    log.clear();
    d->set_error(handler_fn(r->fn), arg_of(r));
    accept(r);
    c.logf("dispatch::set_error(handler): new fallback %s", who(r).c_str());
    std::vector<Exp> exp;
    if (old) exp.push_back({old, true});
    expect("set_error", exp);
    fb = r;
    fb_kind = 1;
    c.label("cxx:set_error");
    after("set_error");
  }
  void op_set_default() {
    uintptr_t id = draw_id(T[0]);
    if (!id) id = 1;
    bool was = T[0].live.count(id);
    log.clear();
    bool ok = d->set_default(id);
    c.logf("dispatch::set_default(%#zx) = %s  (%s), _def %#zx", (size_t)id, ok ? "true" : "false", was ? "id is registered" : "id is free", (size_t)d->_def);
    expect("set_default", {});
    // the wrapper guards the assignment with a look-up of the handler: success is reported only for an id that has one
    // (a refusal of a registered id leaves everything unchanged and is only counted, DESIGN sect. 4)
    VP_CHECK(c, !ok || was, "set-default", "dispatch::set_default(%#zx) returns true and makes it the default although no handler is registered for that id (%zu registrations)", (size_t)id,
             T[0].live.size());
    if (ok) mdef = id;
    c.label(ok ? "cxx:set_default-ok" : was ? "cxx:set_default-refused-registered-id" : "cxx:set_default-refused");
    after("set_default");
  }
  void teardown_w() {
    Table &t = T[1];
    std::vector<Exp> exp;
    for (auto &e : t.live) if (e.second.kind == KHarness) exp.push_back({e.second.reg, true});
    CBuf *b = cbuf(reinterpret_cast<array *>(t.arr));
    bool typed = b && b->traits;
    log.clear();
    // an array made by mpt_command_set carries the command traits: dropping the buffer finalises the entries;
    // an array made by mpt_command_reserve is raw: the owner clears it first (mpt_connection_close)
    if (typed && c.flip()) { c.logf("teardown W: drop the typed buffer"); c.label("teardown:traits"); }
    else { c.logf("teardown W: mpt_command_clear + drop"); mpt_command_clear(t.arr); }
    mpt_array_clone(reinterpret_cast<array *>(t.arr), 0);
    t.live.clear();
    expect("teardown(W)", exp);
  }
  void finish() {
    if (d_init) op_fini();
    teardown_w();
    // per (function, context): one end-of-life call for every registration of the pair the library ever held
    // (none for a slot the harness released itself), and no registration of it left behind
    std::map<std::pair<Hctx *, int>, int> want;
    for (auto &p : regs) {
      Reg *r = p.get();
      want[{r->ctx, r->fn}] += r->registered && !r->released ? 1 : 0;
    }
    for (auto &p : ctxs)
      for (int f = 0; f < NFn; f++) {
        int w = want.count({p.get(), f}) ? want[{p.get(), f}] : 0;
        VP_CHECK(c, p->eol[f] == w, p->eol[f] < w ? "eol-missing" : "eol-twice", "end of case: (fn%d, %scontext %u) got %d end-of-life calls, %d registrations of the pair ended", f,
                 p->null ? "NULL " : p->pooled ? "shared " : "", p->serial, p->eol[f], w);
      }
  }
};

static int h_common(int fn, void *arg, event *ev) {
  World *w = g_w;
  if (!w) return 0;
  Hctx *o = arg ? static_cast<Hctx *>(arg) : w->ctxs[0].get();  // no context: booked under the NULL context, keyed by the function
  Call k;
  k.o = o;
  k.fn = fn;
  k.eol = !ev;
  k.after_death = o->live[fn] <= 0;
  k.id = ev ? ev->id : 0;
  k.ev = ev;
  k.msg = ev ? ev->msg : 0;
  k.reply = ev ? ev->reply : 0;
  w->log.push_back(k);
  if (!ev) {
    ++o->eol[fn];
    if (o->live[fn] > 0) --o->live[fn];
    return 0;
  }
  ++o->calls[fn];
  if (w->plan.rewrite) ev->id = w->plan.newid;
  return w->plan.ret;
}
// three distinct handler functions (distinct addresses; the library must finalise through the one that was registered)
template <int K> static int h_fn(void *arg, event *ev) { return h_common(K, arg, ev); }
static event_handler_t handler_fn(int fn) {
  static const event_handler_t f[NFn] = {h_fn<0>, h_fn<1>, h_fn<2>};
  return f[fn];
}

static void run(Ctx &c) {
  static bool quiet = (mpt_log_default_skip(1), true);  // keep the worker's stderr small; the log level is no part of the property
  (void)quiet;
  uint8_t sel = c.u8();  // scenario selector
  World w(c);
  w.cxx = (sel & 3) == 3;
  w.sel = sel;
  c.label(w.cxx ? "scenario:c++-wrapper" : "scenario:c-api");
  w.op_init();
  while (c.more()) {
    ++w.nops;
    if (!w.d_init) { w.op_init(); continue; }
    switch (c.weighted({10, 4, 8, 2, 1, 1, 2, 12, 8, 5, 6, 3, 2, 4, 2, 1, 3})) {
      case 0: w.op_dispatch_set(); break;
      case 1: w.op_dispatch_clear(); break;
      case 2: w.op_command_set(w.T[0]); break;
      case 3: w.op_command_set(w.T[1]); break;
      case 4: w.op_command_clear(w.T[0]); break;
      case 5: w.op_command_clear(w.T[1]); break;
      case 6: w.op_get(w.T[c.pick(2)]); break;
      case 7: w.op_emit_id(); break;
      case 8: w.op_emit_msg(); break;
      case 9: w.op_emit_default(); break;
      case 10: w.op_hash_direct(); break;
      case 11: w.op_reserve(w.T[1]); break;
      case 12: w.op_reserve(w.T[0]); break;
      case 13: w.op_release(w.T[c.weighted({1, 3})]); break;
      case 14: w.op_burst(); break;
      case 15: w.op_fini(); break;
      default:
        if (!w.cxx) w.op_get(w.T[0]);
        else if (c.flip()) w.op_set_default();
        else w.op_set_error();
        break;
    }
  }
  w.finish();
}

static Target t = {
    "C11",
    "random: history (op count by continue-bits) over the table of a dispatch (4 init styles: with/without mpt_dispatch_init, harness/library/no fallback) and a stand-alone reply array of "
    "mpt_dispatch_set / (id,NULL) / mpt_command_set add|replace|delete / mpt_command_clear / mpt_command_get / mpt_command_reserve(width 0..12) + activate + release / bursts of up to 150 "
    "reservations (1-byte id limit, wrap, low-id search) / mpt_dispatch_emit by id, by message (first byte, 1..n exact-size fragments incl. empty ones), default (NULL) / mpt_dispatch_hash "
    "directly and as handler of id 4 with command texts (separators NUL, space, ':' ','; words up to 200 bytes around the 128 byte copy buffer, split over fragments) / mpt_dispatch_fini + re-init; "
    "about 3 cases in 10 drive the dispatcher through the C++ wrapper instead (mpt::dispatch ctor/dtor, set_handler, handler, reserve, set_error, set_default); ids 0..7, 0x100000003, "
    "hashes of 14 command names (7 with bytes >= 0x80 / UTF-8, ids taken alternately as mpt_hash(name,len) and mpt_hash(name,-1)), reserved ids, random bytes; per emit the invoked handler returns a drawn flag set (0..7, Retry, CtlError) or one of 10 errors and may rewrite ev->id. "
    "non-trivial: an event was delivered to a registered handler after a replace or a slot reuse in the dispatcher table, or fini ran with >= 2 live registrations; distinct by hash of the draw sequence.",
    run,
    {800, 4000},
    false,
    true,
    {},
    0,
    0,
};
Target &vp::target() { return t; }
