// C-API view of the mptplot value headers (values.h) plus C-layout accessors for the
// metatype / iterator / convertable interfaces. Same neutralisation of the access specifiers as
// mpt_c.hpp (include that one first or let this file do it).
#pragma once
#include "mpt_c.hpp"

#define protected public
#define private public
#include "values.h"
#undef protected
#undef private

// The interfaces are C structs holding a pointer to a table of function pointers. Under a C++
// compiler the headers declare them as abstract classes whose (Itanium) v-table has the same
// layout. Harness code calls through the C layout, so no C++ dispatch semantics are involved.
namespace capi {

struct ConvVptr {
  int (*convert)(void *, uintptr_t, void *);
};
struct MetaVptr {
  ConvVptr conv;
  void (*unref)(void *);
  uintptr_t (*addref)(void *);
  void *(*clone)(const void *);
};
struct IterVptr {
  const mpt::value *(*value)(void *);
  int (*advance)(void *);
  int (*reset)(void *);
};

inline const MetaVptr *vptr(mpt::metatype *mt) { return *reinterpret_cast<const MetaVptr *const *>(mt); }
inline const IterVptr *vptr(mpt::iterator *it) { return *reinterpret_cast<const IterVptr *const *>(it); }
inline const ConvVptr *vptr(mpt::convertable *cv) { return *reinterpret_cast<const ConvVptr *const *>(cv); }

inline int meta_convert(mpt::metatype *mt, uintptr_t type, void *dest) { return vptr(mt)->conv.convert(mt, type, dest); }
inline void meta_unref(mpt::metatype *mt) { vptr(mt)->unref(mt); }
inline mpt::metatype *meta_clone(mpt::metatype *mt) { return static_cast<mpt::metatype *>(vptr(mt)->clone(mt)); }

inline const mpt::value *iter_value(mpt::iterator *it) { return vptr(it)->value(it); }
inline int iter_advance(mpt::iterator *it) { return vptr(it)->advance(it); }
inline int iter_reset(mpt::iterator *it) { return vptr(it)->reset(it); }

inline int conv_convert(mpt::convertable *cv, uintptr_t type, void *dest) { return vptr(cv)->convert(cv, type, dest); }

// iterator interface of a metatype (what MPT_metatype_convert(mt, TypeIteratorPtr, &it) does in C)
inline mpt::iterator *meta_iterator(mpt::metatype *mt) {
  mpt::iterator *it = 0;
  if (meta_convert(mt, mpt::TypeIteratorPtr, &it) < 0) return 0;
  return it;
}

}  // namespace capi
