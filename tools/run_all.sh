#!/bin/sh
# run the quick (or $1) tier of every claimed check sequentially; summary lines only
tier=${1:-quick}
cd "$(dirname "$0")/.."
for p in ${PROPS:-$(python3 -c "import json;print(' '.join(c['property_id'] for c in json.load(open('MANIFEST.json'))['checks']))")}; do
  ./check $p --tier $tier 2>&1 | grep -E "VIOLATION|KNOWN-FINDING|INCONCLUSIVE|BUILD FAILED|^\[$p (quick|thorough)|Traceback" | cut -c1-220
done
