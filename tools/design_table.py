#!/usr/bin/env python3
"""(maintenance) print the per-property table of DESIGN.md sect. 11.4 from known_findings.json, mutants/ and seeded/."""
import glob, json, os, collections
V = os.path.dirname(os.path.dirname(os.path.abspath(__file__)))
props = [json.loads(l) for l in open(os.path.join(V, "properties.jsonl"))]
kf = json.load(open(os.path.join(V, "known_findings.json")))["findings"]
fixed = collections.Counter(f["property"] for f in kf if f["status"] == "fixed")
opn = collections.Counter(f["property"] for f in kf if f["status"] == "open")
mut = collections.Counter(os.path.basename(os.path.dirname(p)) for p in glob.glob(os.path.join(V, "mutants", "*", "*.patch")))
seed = collections.Counter()
verd = collections.defaultdict(collections.Counter)
for m in glob.glob(os.path.join(V, "seeded", "*", "meta.json")):
    j = json.load(open(m))
    seed[j["property"]] += 1
    v = (j.get("check_result") or {}).get("verdict", "?")
    verd[j["property"]]["caught" if v == "CAUGHT" else "caught by another check" if v.startswith("CAUGHT-BY") else "explained" if v == "MISSED-EXPLAINED" else v] += 1
print("| property | title | fixed | open | mutants | seeded changes (verdicts) |\n|---|---|---|---|---|---|")
for p in props:
    i = p["id"]
    print("| %s | %s | %d | %d | %d | %d (%s) |" % (i, p["title"], fixed[i], opn[i], mut[i], seed[i], ", ".join("%d %s" % (n, k) for k, n in sorted(verd[i].items()))))
print("\ntotals: fixed %d, open %d, mutants %d, seeded %d" % (sum(fixed.values()), sum(opn.values()), sum(mut.values()), sum(seed.values())))
