#!/usr/bin/env python3
"""C01, Python client part: encode generated messages with the bundled mpt.py (encode_cobs) and emit
them as cases for the C01 target (mode 0xFE: u16 message length, message, frame), smallest first.
usage: c01_pyclient.py <repo> <seed> <count> <outfile>"""
import importlib.util, random, struct, sys

repo, seed, count, out = sys.argv[1], int(sys.argv[2]), int(sys.argv[3]), sys.argv[4]
spec = importlib.util.spec_from_file_location("mpt_client", repo + "/mpt.py")
mod = importlib.util.module_from_spec(spec)
spec.loader.exec_module(mod)
rnd = random.Random(seed)
BOUND = [0, 1, 2, 30, 31, 253, 254, 255, 256, 507, 508, 509, 510, 762, 763]


def message():
    m = bytearray()
    for _ in range(rnd.randint(0, 5)):
        k = rnd.random()
        if k < 0.45:
            n = max(0, rnd.choice(BOUND) + rnd.randint(-2, 2)) if rnd.random() < 0.8 else rnd.randint(0, 800)
            b = rnd.randint(1, 255)
            ramp = rnd.random() < 0.5
            m += bytes(((b + i) % 255) + 1 if ramp else b for i in range(n))
        elif k < 0.7:
            m += bytes(rnd.randint(1, 4))
        else:
            m += bytes(rnd.randint(0, 255) for _ in range(rnd.randint(1, 12)))
    return bytes(m[:60000])


fixed = {bytes([7]) * n for n in (253, 254, 255, 256, 507, 508, 509, 510)} | {bytes([7]) * 254 + b"\0" + bytes([9]) * 254}
msgs = sorted({message() for _ in range(count)} | fixed, key=lambda m: (len(m), m))
import io


def send(m, command):
    """the client's send path: Output.push + Output.flush onto a channel object"""
    o = mod.Output()
    o._chan = io.BytesIO()
    if not command:
        o._encode = mod.encode_cobs
    o.push(bytes(m))
    o.flush()
    return o._chan.getvalue()


n = 0
with open(out, "wb") as f:
    for m in msgs:
        # every third message (and every short one) goes through the Output class, the others through the encoder function
        frame = send(m, False) if (n % 3 == 0 or len(m) < 4) else bytes(mod.encode_cobs(bytearray(m)))
        case = b"\xfe" + struct.pack("<H", len(m)) + m + frame
        f.write(struct.pack("<I", len(case)) + case)
        n += 1
        # the client's command framing (zero terminated text) admits zero-free messages only
        if 0 not in m and len(m) < 2000 and n % 4 == 0:
            frame = send(m, True) if len(m) < 4 else bytes(mod.encode_command(bytearray(m)))
            case = b"\xfd" + struct.pack("<H", len(m)) + m + frame
            f.write(struct.pack("<I", len(case)) + case)
            n += 1
print(n)
