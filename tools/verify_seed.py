#!/usr/bin/env python3
"""Confirm a seeded change (seeded/<id>/patch.diff + demo/) independently: in a scratch worktree of /repo HEAD the
demo must pass without the change; with the change the tree must build, pass the 29 baseline tests, and the demo
must fail. Writes the outcome into seeded/<id>/meta.json ("confirmed").   usage: verify_seed.py <id> [...]"""
import json, os, re, shutil, subprocess, sys
VERIF = os.path.dirname(os.path.dirname(os.path.abspath(__file__)))


def sh(cmd, cwd=None):
    r = subprocess.run(cmd, shell=True, cwd=cwd, stdout=subprocess.PIPE, stderr=subprocess.STDOUT, text=True, errors="replace")
    return r.returncode, r.stdout


for sid in sys.argv[1:]:
    d = os.path.join(VERIF, "seeded", sid)
    w = "/tmp/seedcheck-%d" % os.getpid()
    sh("git -C /repo worktree remove --force %s; rm -rf %s" % (w, w))
    sh("git -C /repo worktree add -q --detach %s HEAD" % w)
    head = sh("git -C /repo rev-parse --short HEAD")[1].strip()
    shutil.copytree(os.path.join(d, "demo"), os.path.join(w, "demo"))
    build = "cmake -S . -B _build -G Ninja >/dev/null 2>&1 && cmake --build _build >/dev/null 2>&1"
    test = "ctest --test-dir _build -j8 --timeout 900 2>&1 | tail -3"
    out = {"repo_head": head}
    rc, o = sh(build, w)
    out["build_without"] = rc == 0
    rc, o = sh("sh demo/build.sh", w)
    out["demo_without_change"] = "pass" if rc == 0 else "FAIL(rc=%d)" % rc
    rc, o = sh("git apply --whitespace=nowarn %s" % os.path.join(d, "patch.diff"), w)
    out["patch_applies"] = rc == 0
    rc, o = sh(build, w)
    out["build_with"] = rc == 0
    rc, o = sh(test, w)
    m = re.search(r"(\d+)% tests passed, (\d+) tests failed out of (\d+)", o)
    out["baseline_with_change"] = m.group(0) if m else "no result"
    rc, o = sh("sh demo/build.sh", w)
    out["demo_with_change"] = "fail(rc=%d)" % rc if rc else "PASSES"
    out["demo_output_with_change"] = o[-600:]
    ok = out["build_without"] and out["demo_without_change"] == "pass" and out["patch_applies"] and out["build_with"] and \
        out["baseline_with_change"].startswith("100% tests passed, 0 tests failed out of 29") and rc != 0
    out["confirmed"] = bool(ok)
    mp = os.path.join(d, "meta.json")
    meta = json.load(open(mp)) if os.path.exists(mp) else {}
    meta["independent_confirmation"] = out
    json.dump(meta, open(mp, "w"), indent=1)
    print(sid, "CONFIRMED" if ok else "NOT CONFIRMED", {k: v for k, v in out.items() if k != "demo_output_with_change"})
    sh("git -C /repo worktree remove --force %s; rm -rf %s" % (w, w))
