#!/usr/bin/env python3
"""validate MANIFEST.json and evidence/*.json against the schemas (uses the tooling venv's jsonschema)"""
import glob, json, sys
import jsonschema
m = json.load(open('/verif/MANIFEST.json'))
jsonschema.validate(m, json.load(open('/root/.vp/MANIFEST.schema.json')))
es = json.load(open('/root/.vp/EVIDENCE.schema.json'))
ids = [json.loads(l)['id'] for l in open('/verif/properties.jsonl')]
claimed = [c['property_id'] for c in m['checks']]
na = [c['property_id'] for c in m.get('not_applicable', [])]
assert sorted(claimed + na) == sorted(ids), (sorted(set(ids) - set(claimed) - set(na)), "unlisted")
for f in sorted(glob.glob('/verif/evidence/*.json')):
    jsonschema.validate(json.load(open(f)), es)
    print("ok", f)
print("manifest ok: claimed", claimed)
