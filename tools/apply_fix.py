#!/usr/bin/env python3
"""apply a proposed repair (notes/patches/*.patch: leading '#' lines = commit message starting with 'fix:') to /repo,
run the baseline suite, commit it.   usage: apply_fix.py <patch> [--no-test]"""
import re, subprocess, sys
import os
patch = os.path.abspath(sys.argv[1])
lines = open(patch).read().split("\n")
msg = []
for l in lines:
    if l.startswith("#"):
        msg.append(l[1:].lstrip(" ") if not l.startswith("# ") else l[2:])
    elif msg or l.strip():
        break
msg = "\n".join(msg).strip()
if not msg.startswith("fix:"):
    sys.exit("commit message does not start with fix: -> %r" % msg[:80])
first, _, rest = msg.partition("\n")
msg = first + "\n\n" + rest.strip() + "\n" if rest.strip() else first + "\n"
r = subprocess.run(["git", "-C", "/repo", "apply", "--whitespace=nowarn", "--index", patch], stderr=subprocess.PIPE, text=True)
if r.returncode:
    sys.exit("patch does not apply: " + r.stderr)
if "--no-test" not in sys.argv:
    t = subprocess.run("cmake --build /repo/_build 2>&1 | tail -3 && ctest --test-dir /repo/_build -j8 --timeout 900 2>&1 | tail -4", shell=True, stdout=subprocess.PIPE, text=True)
    if "100% tests passed, 0 tests failed out of 29" not in t.stdout:
        subprocess.run(["git", "-C", "/repo", "reset", "-q", "--hard", "HEAD"])
        sys.exit("baseline failed, change reverted:\n" + t.stdout)
subprocess.run(["git", "-C", "/repo", "commit", "-q", "-m", msg], check=True)
print(subprocess.run(["git", "-C", "/repo", "log", "--oneline", "-1"], stdout=subprocess.PIPE, text=True).stdout.strip())
