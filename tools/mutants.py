#!/usr/bin/env python3
"""Sensitivity self-test (DESIGN sect. 5): apply each mutants/<PROP>/*.patch (and seeded/<id>/patch.diff with --seeded)
to a scratch worktree of /repo, optionally check that it still builds and passes the 29 baseline tests, run the quick
check of the property against it and expect a VIOLATION.   usage: mutants.py [--baseline] [--seeded] [--cases N] [PROP ...]"""
import glob, json, os, re, shutil, subprocess, sys

VERIF = os.path.dirname(os.path.dirname(os.path.abspath(__file__)))
args = sys.argv[1:]
baseline = "--baseline" in args
seeded = "--seeded" in args
cases = None
if "--cases" in args:
    cases = args[args.index("--cases") + 1]
    del args[args.index("--cases"):args.index("--cases") + 2]
match = None
if "--match" in args:
    match = args[args.index("--match") + 1].split(",")
    del args[args.index("--match"):args.index("--match") + 2]
props = [a for a in args if not a.startswith("--")]
jobs = []
only_seeded = "--only-seeded" in args
seeded = seeded or only_seeded
for p in sorted(glob.glob(os.path.join(VERIF, "mutants", "*", "*.patch"))):
    if not only_seeded:
        jobs.append((os.path.basename(os.path.dirname(p)), p))
if seeded:
    for m in sorted(glob.glob(os.path.join(VERIF, "seeded", "*", "meta.json"))):
        meta = json.load(open(m))
        jobs.append((meta["property"], os.path.join(os.path.dirname(m), "patch.diff")))
if props:
    jobs = [j for j in jobs if j[0] in props]
if match:
    jobs = [j for j in jobs if any(m in j[1] for m in match)]
scratch = "/tmp/mutant-%d" % os.getpid()
results = []
for prop, patch in jobs:
    subprocess.run(["git", "-C", "/repo", "worktree", "remove", "--force", scratch], stdout=subprocess.DEVNULL, stderr=subprocess.DEVNULL)
    shutil.rmtree(scratch, ignore_errors=True)
    subprocess.run(["git", "-C", "/repo", "worktree", "add", "-q", "--detach", scratch, "HEAD"], check=True)
    name = os.path.relpath(patch, VERIF)
    r = subprocess.run(["git", "-C", scratch, "apply", "--whitespace=nowarn", patch], stderr=subprocess.PIPE, text=True)
    if r.returncode:
        results.append((prop, name, "PATCH-DOES-NOT-APPLY", r.stderr.strip()[:200]))
        print("%-4s %-60s %-12s %s" % results[-1], flush=True)
        continue
    base = ""
    if baseline:
        b = os.path.join(scratch, "_build")
        ok = subprocess.run("cmake -S %s -B %s -G Ninja >/dev/null 2>&1 && cmake --build %s >/dev/null 2>&1 && ctest --test-dir %s -j8 --timeout 900 2>&1 | tail -3" % (scratch, b, b, b), shell=True, stdout=subprocess.PIPE, text=True)
        m = re.search(r"(\d+)% tests passed, (\d+) tests failed out of (\d+)", ok.stdout)
        base = "baseline %s" % (m.group(0) if m else "BUILD-FAILED")
    env = dict(os.environ, VERIF_REPO=scratch)
    cmd = [os.path.join(VERIF, "check"), prop] + (["--cases", cases] if cases else [])
    r = subprocess.run(cmd, stdout=subprocess.PIPE, stderr=subprocess.PIPE, text=True, env=env)
    viol = re.findall(r"^VIOLATION.*$", r.stdout, re.M)
    classes = re.findall(r"^  class (\S+)", r.stderr, re.M)
    verdict = "CAUGHT" if r.returncode == 1 and viol else ("MISSED" if r.returncode == 0 else "CHECK-BROKEN(%d)" % r.returncode)
    other = []
    if verdict == "MISSED" and name.startswith("seeded/"):
        # a change written against one property may show at the level another property's check works on
        for q in json.load(open(os.path.join(os.path.dirname(patch), "meta.json"))).get("also_run", []):
            r2 = subprocess.run([os.path.join(VERIF, "check"), q] + (["--cases", cases] if cases else []), stdout=subprocess.PIPE, stderr=subprocess.PIPE, text=True, env=env)
            if r2.returncode == 1 and re.search(r"^VIOLATION", r2.stdout, re.M):
                other.append(q)
                classes += ["%s:%s" % (q, k) for k in re.findall(r"^  class (\S+)", r2.stderr, re.M)]
        if other:
            verdict = "CAUGHT-BY-" + "+".join(other)
    if verdict.startswith("CHECK-BROKEN"):
        os.makedirs(os.path.join(VERIF, "build", "logs"), exist_ok=True)
        open(os.path.join(VERIF, "build", "logs", "check-broken-%s-%d.log" % (os.path.basename(os.path.dirname(patch)) or prop, os.getpid())), "w").write(r.stdout[-4000:] + "\n----\n" + r.stderr[-8000:])
    results.append((prop, name, verdict, base + " " + ",".join(classes)))
    print("%-4s %-60s %-12s %s" % results[-1], flush=True)
    head = subprocess.run(["git", "-C", "/repo", "rev-parse", "--short", "HEAD"], stdout=subprocess.PIPE, text=True).stdout.strip()
    if name.startswith("seeded/"):
        mp = os.path.join(os.path.dirname(patch), "meta.json")
        meta = json.load(open(mp))
        note = (meta.get("check_result") or {}).get("note")
        meta["check_result"] = {"verdict": verdict, "caught_by": classes, "cmd": "./check %s --tier quick (VERIF_REPO=scratch worktree of /repo %s + patch.diff)" % (prop, head)}
        if "also_run" in meta and verdict.startswith("CAUGHT-BY"):
            meta["check_result"]["cmd"] += "; the check of %s itself stayed silent, the checks of %s (meta.also_run) reported it" % (prop, "+".join(other))
        if note and verdict == "MISSED":  # an analysed non-detection keeps its explanation
            meta["check_result"]["verdict"] = "MISSED-EXPLAINED"
            meta["check_result"]["note"] = note
        json.dump(meta, open(mp, "w"), indent=1)
    else:
        rp = os.path.join(VERIF, "mutants", prop, "RESULTS.json")
        res = json.load(open(rp)) if os.path.exists(rp) else {}
        res[os.path.basename(patch)] = {"verdict": verdict, "caught_by": classes, "repo_head": head}
        json.dump(res, open(rp, "w"), indent=1, sort_keys=True)
subprocess.run(["git", "-C", "/repo", "worktree", "remove", "--force", scratch], stdout=subprocess.DEVNULL, stderr=subprocess.DEVNULL)
shutil.rmtree(scratch, ignore_errors=True)
bad = [r for r in results if not r[2].startswith("CAUGHT")]
print("%d mutants, %d caught, %d not caught" % (len(results), len(results) - len(bad), len(bad)))
sys.exit(1 if bad else 0)
