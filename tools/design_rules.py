#!/usr/bin/env python3
"""(maintenance) regenerate DESIGN.md sect. 11.5 from the `--info` output of the most recently built target binaries."""
import glob, json, os, re, subprocess
V = os.path.dirname(os.path.dirname(os.path.abspath(__file__)))
defaults = json.load(open(os.path.join(V, "targets", "config.json")))["default"]
out = ["### 11.5 What each check generates and decides (as built)\n",
       "The text below is the `rule` string each target carries and copies into its\nevidence file (generator, exhaustive sub-spaces, rule for non-trivial and\ndistinct cases); oracles are grounded sentence by sentence in\n`notes/Cxx-report.md`.\n"]
for n in range(1, 21):
    p = "C%02d" % n
    exes = sorted(glob.glob(os.path.join(V, "build", "*", "asan", "bin", p + "-*")), key=os.path.getmtime)
    exes = [e for e in exes if not e.endswith(tuple(".tmp%d" % i for i in range(10)))]
    info = json.loads(subprocess.run([exes[-1], "--info"], stdout=subprocess.PIPE, text=True).stdout)
    cfg = dict(defaults)
    pj = os.path.join(V, "targets", p + ".json")
    if os.path.exists(pj):
        cfg.update(json.load(open(pj)))
    src = os.path.relpath(glob.glob(os.path.join(V, "targets", p + "_*.cpp"))[0], V)
    enums = "; enumerated: " + ", ".join("%s (%s)" % (e["name"], format(e["size"], ",")) for e in info["enums"]) if info["enums"] else ""
    fork = ", one forked process per case" if info["fork_per_case"] else ""
    out.append("**%s** (`%s`; quick %s / thorough %s random cases%s%s). %s\n" % (p, src, format(cfg["cases"][0], ","), format(cfg["cases"][1], ","), fork, enums, info["rule"]))
s = open(os.path.join(V, "DESIGN.md")).read()
a, b = s.index("### 11.5 "), s.index("### 11.6 ")
open(os.path.join(V, "DESIGN.md"), "w").write(s[:a] + "\n".join(out) + "\n" + s[b:])
print("11.5 regenerated for 20 targets")
