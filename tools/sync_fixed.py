#!/usr/bin/env python3
"""(maintenance, not run by checks) add a status=fixed entry to known_findings.json for every 'fix:' commit of /repo that
stems from a patch in notes/patches/ and is not listed yet. The property is taken from the patch file name."""
import glob, json, os, re, subprocess
V = os.path.dirname(os.path.dirname(os.path.abspath(__file__)))
kf = json.load(open(os.path.join(V, "known_findings.json")))
have = {f.get("commit") for f in kf["findings"]}
log = subprocess.run(["git", "-C", "/repo", "log", "--format=%h\t%s", "--reverse"], stdout=subprocess.PIPE, text=True).stdout.strip().split("\n")
subj = {}
for p in sorted(glob.glob(os.path.join(V, "notes", "patches", "*.patch"))):
    first = open(p).readline().lstrip("# ").strip()
    subj[first] = p
for line in log:
    h, s = line.split("\t", 1)
    if not s.startswith("fix:") or h in have:
        continue
    p = subj.get(s)
    if not p:
        print("no patch file for", h, s)
        continue
    base = os.path.basename(p)[:-6]
    prop = base.split("-")[0]
    slug = "-".join(base.split("-")[2:])
    body = [l[1:].strip() for l in open(p).read().split("\n")[1:] if l.startswith("#")]
    what = " ".join(x for x in body if x)[:400]
    reg = sorted(os.path.relpath(x, V) for x in glob.glob(os.path.join(V, "corpus", prop, "*.bin")) if slug and (slug in x or any(w in os.path.basename(x) for w in slug.split("-") if len(w) > 5)))
    kf["findings"].append({"property": prop, "id": base, "status": "fixed", "commit": h,
                           "line": "fixed: property=%s %s %s" % (prop, h, s[4:].strip() + " -- " + what), "regression": reg, "patch": os.path.relpath(p, V)})
    print("added", prop, h, s)
json.dump(kf, open(os.path.join(V, "known_findings.json"), "w"), indent=1)
