// allocation-failure injection: definitions behind engine/vp_alloc.h (linked into every target)
#include <cerrno>
#include <cstdlib>
#include "vp.hpp"

namespace {
long g_countdown = 0;  // > 0: the g_countdown-th library allocation from now fails (once)
long g_calls = 0, g_failed = 0;
inline bool fail_now() {
  ++g_calls;
  if (g_countdown > 0 && --g_countdown == 0) { ++g_failed; errno = ENOMEM; return true; }
  return false;
}
}  // namespace

extern "C" {
void *vp_malloc(size_t n) noexcept { return fail_now() ? 0 : malloc(n); }
void *vp_calloc(size_t n, size_t s) noexcept { return fail_now() ? 0 : calloc(n, s); }
void *vp_realloc(void *p, size_t n) noexcept { return fail_now() ? 0 : realloc(p, n); }
}

namespace vp {
void alloc_fail_after(long k) { g_countdown = k > 0 ? k : 0; g_calls = 0; }
long alloc_calls() { return g_calls; }
long alloc_failures() { return g_failed; }
bool alloc_armed() { return g_countdown > 0; }
void alloc_reset() { g_countdown = 0; g_calls = 0; g_failed = 0; }
}  // namespace vp
