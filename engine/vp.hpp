// vp.hpp — choice-sequence property-testing engine (see DESIGN.md sect. 2.3)
//
// A case is a byte string. A target draws structured choices from it through
// Ctx; when the bytes are exhausted every draw returns its minimum. The same
// target function therefore runs under the random driver, the exhaustive
// enumerators, libFuzzer and replay, and shrinking is generic.
#pragma once
#include <cstdarg>
#include <cstdint>
#include <cstdio>
#include <cstdlib>
#include <cstring>
#include <initializer_list>
#include <string>
#include <vector>

namespace vp {

struct Fail {
  std::string tag;
  std::string msg;
};

enum { MaxLabels = 160, LabelLen = 56 };

// lives in MAP_SHARED memory so forked per-case children update it in place
struct Stats {
  uint64_t cases;
  uint64_t nontrivial;
  uint64_t excluded_total;
  struct {
    char name[LabelLen];
    uint64_t cases;  // number of cases that carried the label
    uint64_t total;  // sum of counts
    uint64_t epoch;  // last case index that touched it
  } label[MaxLabels];
  // per-case scratch written by the case (possibly in a child process)
  uint64_t cur_hash;
  uint32_t cur_nontrivial;
  uint32_t cur_done;
  char cur_tag[96];
  char cur_msg[1024];
};

Stats *stats();          // engine-owned (shared memory)
uint64_t case_epoch();   // index of running case
bool finding_open(const char *id);
bool external_mode();                // case comes from an external generator (check --batch / *.ext.bin replays)  // is exclusion for a known finding switched on?

class Ctx {
 public:
  Ctx(const uint8_t *d, size_t n, bool verbose)
      : d_(d), n_(n), pos_(0), h_(0xcbf29ce484222325ull), verbose_(verbose), nontrivial_(false) {}

  // ---- draws -------------------------------------------------------------
  bool exhausted() const { return pos_ >= n_; }
  size_t remaining() const { return pos_ < n_ ? n_ - pos_ : 0; }
  uint8_t raw8() { return pos_ < n_ ? d_[pos_++] : (pos_++, 0); }
  uint8_t u8() { uint8_t v = raw8(); mix(v); return v; }
  uint16_t u16() { uint16_t v = raw8(); v |= (uint16_t)raw8() << 8; mix(v); return v; }
  uint32_t u32() { uint32_t v = 0; for (int i = 0; i < 4; i++) v |= (uint32_t)raw8() << (8 * i); mix(v); return v; }
  uint64_t u64() { uint64_t v = 0; for (int i = 0; i < 8; i++) v |= (uint64_t)raw8() << (8 * i); mix(v); return v; }
  bool flip() { bool v = raw8() & 1; mix(v); return v; }
  // true with probability ~ num/256
  bool chance(unsigned num) { bool v = raw8() >= 256 - num; mix(v); return v; }
  // another operation? (false once the bytes are used up, so deleting a chunk deletes operations)
  bool more() { if (pos_ >= n_) { return false; } bool v = raw8() != 0; mix(v); return v; }
  // inclusive range, construction based
  uint64_t range(uint64_t lo, uint64_t hi) {
    if (hi <= lo) return lo;
    uint64_t span = hi - lo, r = 0;
    int nb = span < 0x100 ? 1 : span < 0x10000 ? 2 : span < 0x100000000ull ? 4 : 8;
    for (int i = 0; i < nb; i++) r |= (uint64_t)raw8() << (8 * i);
    uint64_t v = span == UINT64_MAX ? r : r % (span + 1);
    mix(v);
    return lo + v;
  }
  size_t pick(size_t n) { return n ? (size_t)range(0, n - 1) : 0; }
  template <typename T> const T &choose(std::initializer_list<T> l) { return *(l.begin() + pick(l.size())); }
  size_t weighted(std::initializer_list<unsigned> w) {
    unsigned tot = 0;
    for (unsigned x : w) tot += x;
    unsigned r = (unsigned)range(0, tot ? tot - 1 : 0), i = 0;
    for (unsigned x : w) { if (r < x) return i; r -= x; ++i; }
    return 0;
  }
  // a size: one of the boundaries +-2 (3 of 4 draws) or uniform in [0,max]
  size_t near(std::initializer_list<size_t> b, size_t max) {
    uint8_t sel = raw8();
    size_t v;
    if ((sel & 3) == 3 || b.size() == 0) {
      mix(0xff);
      v = (size_t)range(0, max);
    } else {
      size_t idx = (sel >> 2) % b.size();
      int delta = (int)(raw8() % 5) - 2;
      mix(idx * 8 + delta + 2);
      size_t base = *(b.begin() + idx);
      v = (delta < 0 && base < (size_t)-delta) ? 0 : base + delta;
      if (v > max) v = max;
    }
    return v;
  }
  void bytes(uint8_t *out, size_t n) { for (size_t i = 0; i < n; i++) out[i] = u8(); }
  std::vector<uint8_t> bytes(size_t n) { std::vector<uint8_t> v(n); bytes(v.data(), n); return v; }

  // ---- measurement -------------------------------------------------------
  void label(const char *name) { count(name, 1); }
  void count(const char *name, uint64_t n);
  void nontrivial() { nontrivial_ = true; }
  bool is_nontrivial() const { return nontrivial_; }
  uint64_t hash() const { return h_; }
  size_t consumed() const { return pos_; }

  // ---- logging / failing -------------------------------------------------
  bool verbose() const { return verbose_; }
  void logf(const char *fmt, ...) __attribute__((format(printf, 2, 3)));
  void loghex(const char *what, const void *p, size_t n);
  [[noreturn]] void fail(const char *tag, const char *fmt, ...) __attribute__((format(printf, 3, 4)));

  // known-finding exclusion by construction: true when the finding is open;
  // the caller steers away and the exclusion is counted
  bool exclude(const char *id);

 private:
  void mix(uint64_t v) { h_ ^= v + 0x9e3779b97f4a7c15ull + (h_ << 6) + (h_ >> 2); h_ *= 0x100000001b3ull; }
  const uint8_t *d_;
  size_t n_, pos_;
  uint64_t h_;
  bool verbose_, nontrivial_;
};

#define VP_CHECK(ctx, cond, tag, ...) \
  do { if (!(cond)) (ctx).fail(tag, __VA_ARGS__); } while (0)

struct Enumerator {
  const char *name;
  // number of cases in the sub-space for the tier (0 quick / 1 thorough); 0 = skip in this tier
  uint64_t (*count)(int tier);
  void (*make)(uint64_t idx, int tier, std::vector<uint8_t> &out);
};

struct Target {
  const char *property;
  const char *rule;       // generator + non-triviality rule, copied to the evidence
  void (*run)(Ctx &);
  size_t max_size[2];     // max case bytes: quick, thorough
  bool fork_per_case;     // process-global state that cannot be reset
  bool leak_check;        // allocation balance + LSan at case end
  std::vector<Enumerator> enums;
  void (*reset)();        // optional, called before every case
  unsigned cpu_seconds;   // per-case CPU budget (0 = default 20)
};

Target &target();  // defined by the target translation unit

// allocation-balance helpers for targets that want intermediate checks
int64_t live_allocations();

// helpers
std::string hex(const void *p, size_t n, size_t max = 64);

// ---- allocation-failure injection (library allocations only: engine/vp_alloc.h is force-included into the library sources)
// alloc_fail_after(k): the k-th malloc/calloc/realloc call made by library code from now on returns NULL, once (k <= 0: off);
// alloc_calls(): library allocation calls since the last alloc_fail_after(); alloc_failures(): injected failures in this case.
// Typical use: run an operation once on a twin object counting its allocations (alloc_fail_after(0) ... alloc_calls()), then run
// it on the object under test with a drawn k in 1..n, and require what the property requires of a refused/failed operation.
void alloc_fail_after(long k);
long alloc_calls();
long alloc_failures();
bool alloc_armed();
void alloc_reset();

}  // namespace vp
