/* force-included (-include) into every library source the checks compile: routes the library's own malloc/calloc/realloc
 * calls through the engine so that a target can make the k-th library allocation of an operation fail (allocation-failure
 * injection, DESIGN 2.3). With no failure armed the calls go straight to the (sanitizer) allocator. */
#ifndef VP_ALLOC_H
#define VP_ALLOC_H
/* the real declarations first (their include guards keep later includes from seeing the macros below) */
#ifdef __cplusplus
# include <cstdlib>
#endif
#include <stdlib.h>
#include <stddef.h>
#ifdef __cplusplus
# define VP_ALLOC_NOEXCEPT noexcept
extern "C" {
#else
# define VP_ALLOC_NOEXCEPT
#endif
void *vp_malloc(size_t) VP_ALLOC_NOEXCEPT;
void *vp_calloc(size_t, size_t) VP_ALLOC_NOEXCEPT;
void *vp_realloc(void *, size_t) VP_ALLOC_NOEXCEPT;
#ifdef __cplusplus
}
#endif
#define malloc(n) vp_malloc(n)
#define calloc(n, s) vp_calloc(n, s)
#define realloc(p, n) vp_realloc(p, n)
#endif
