// vp_fuzz.cpp — libFuzzer bridge: the same target function, bytes chosen by coverage-guided mutation.
#include "vp.hpp"
#include <unistd.h>

namespace vp {
static Stats g_fstats;
Stats *stats() { return &g_fstats; }
uint64_t case_epoch() { return 0; }
int64_t live_allocations() { return 0; }
static std::vector<std::string> &open_list() {
  static std::vector<std::string> l;
  static bool init = false;
  if (!init) {
    init = true;
    const char *e = getenv("VP_EXCLUDE");
    std::string cur;
    for (const char *p = e ? e : ""; ; p++) {
      if (*p == ',' || !*p) { if (!cur.empty()) l.push_back(cur); cur.clear(); if (!*p) break; }
      else cur += *p;
    }
  }
  return l;
}
bool external_mode() { return false; }
bool finding_open(const char *id) { for (auto &s : open_list()) if (s == id) return true; return false; }
void Ctx::count(const char *, uint64_t) {}
bool Ctx::exclude(const char *id) { return finding_open(id); }
void Ctx::logf(const char *, ...) {}
void Ctx::loghex(const char *, const void *, size_t) {}
std::string hex(const void *p, size_t n, size_t max) {
  static const char *d = "0123456789abcdef";
  std::string s;
  const uint8_t *b = (const uint8_t *)p;
  for (size_t i = 0; i < n && i < max; i++) { s += d[b[i] >> 4]; s += d[b[i] & 15]; }
  return s;
}
void Ctx::fail(const char *tag, const char *fmt, ...) {
  char buf[1000];
  va_list ap;
  va_start(ap, fmt);
  vsnprintf(buf, sizeof buf, fmt, ap);
  va_end(ap);
  throw Fail{tag, buf};
}
}  // namespace vp

extern "C" const char *__asan_default_options() {
  return "allocator_may_return_null=1:detect_odr_violation=0:detect_stack_use_after_return=0";
}

extern "C" int LLVMFuzzerTestOneInput(const uint8_t *data, size_t size) {
  vp::Target &t = vp::target();
  vp::Ctx ctx(data, size, false);
  try {
    vp::alloc_reset();
    if (t.reset) t.reset();
    t.run(ctx);
  } catch (vp::Fail &f) {
    fprintf(stderr, "VP-FAIL %s: %s\n", f.tag.c_str(), f.msg.c_str());
    fflush(stderr);
    __builtin_trap();
  }
  return 0;
}
