// Reference COBS codecs, written from the dialect definitions (non-resumable, whole frames only).
//   plain : code c = c-1 data bytes, followed by an implied zero when c < 0xFF and another block follows
//   ZPE   : c <= 0xDE as plain, 0xDF = 222 data bytes without zero, 0xE0+k = k data bytes + two zeros
//   /R    : a final block that is cut short by the delimiter carries its own code as last data byte
#pragma once
#include <cstdint>
#include <cstddef>
#include <vector>

namespace ref {
enum Dialect { Cobs = 0, CobsR = 1, Zpe = 2, ZpeR = 3 };
inline bool is_r(Dialect d) { return d == CobsR || d == ZpeR; }
inline bool is_zpe(Dialect d) { return d == Zpe || d == ZpeR; }

enum Verdict { WellFormed, Malformed };

// body = bytes of the frame before the delimiter (must not contain zero)
inline Verdict decode(Dialect d, const uint8_t *f, size_t n, std::vector<uint8_t> &out, size_t *paircodes = 0) {
  out.clear();
  if (paircodes) *paircodes = 0;
  if (!n) return Malformed;  // leading / double delimiter
  const unsigned maxlen = is_zpe(d) ? 0xdf : 0xff;
  size_t i = 0;
  while (i < n) {
    unsigned c = f[i++];
    size_t ndata, nzero;
    if (is_zpe(d) && c >= 0xe0) { ndata = c - 0xe0; nzero = 2; if (paircodes) ++*paircodes; }
    else { ndata = c - 1; nzero = c < maxlen ? 1 : 0; }
    if (i + ndata > n) {  // block cut short by the delimiter
      if (!is_r(d)) return Malformed;
      out.insert(out.end(), f + i, f + n);
      out.push_back((uint8_t)c);
      return WellFormed;
    }
    out.insert(out.end(), f + i, f + i + ndata);
    i += ndata;
    if (nzero == 2) { out.push_back(0); out.push_back(0); }
    else if (nzero && i < n) out.push_back(0);
  }
  return WellFormed;
}

// canonical greedy encoder; returns frame including the delimiter
inline std::vector<uint8_t> encode(Dialect d, const uint8_t *m, size_t n) {
  std::vector<uint8_t> o;
  const unsigned maxlen = is_zpe(d) ? 0xdf : 0xff;
  size_t cp = 0;
  unsigned code = 1;
  o.push_back(0);
  for (size_t i = 0; i < n; i++) {
    if (m[i]) {
      o.push_back(m[i]);
      if (++code == maxlen) { o[cp] = code; cp = o.size(); o.push_back(0); code = 1; }
    } else {
      if (is_zpe(d) && code > 1 && code < 32 && i + 1 < n && !m[i + 1]) { o[cp] = code - 1 + 0xe0; ++i; }
      else o[cp] = code;
      cp = o.size(); o.push_back(0); code = 1;
    }
  }
  o[cp] = code;
  if (is_r(d) && code > 1) {
    unsigned last = o.back();
    bool ok = last > code && (!is_zpe(d) || last <= maxlen);
    if (ok) { o[cp] = last; o.pop_back(); }
  }
  o.push_back(0);
  return o;
}
}  // namespace ref
