// vp_main.cpp — worker / replay / shrink / merge drivers of the vp engine.
// Orchestration (process pool, triage, evidence) lives in /verif/check.
#include "vp.hpp"

#include <algorithm>
#include <cerrno>
#include <csignal>
#include <ctime>
#include <fcntl.h>
#include <map>
#include <set>
#include <sys/mman.h>
#include <sys/resource.h>
#include <sys/stat.h>
#include <sys/time.h>
#include <sys/wait.h>
#include <unistd.h>

extern "C" {
int __lsan_do_recoverable_leak_check(void) __attribute__((weak));
void __lsan_disable(void) __attribute__((weak));
void __lsan_enable(void) __attribute__((weak));
int __sanitizer_install_malloc_and_free_hooks(void (*)(const volatile void *, size_t),
                                              void (*)(const volatile void *)) __attribute__((weak));
const char *__asan_default_options() {
  return "detect_leaks=1:allocator_may_return_null=1:exitcode=77:abort_on_error=0:"
         "detect_odr_violation=0:handle_abort=1:print_summary=1:malloc_context_size=12:"
         "detect_stack_use_after_return=0:symbolize=1:fast_unwind_on_malloc=1";
}
const char *__ubsan_default_options() { return "print_stacktrace=1:halt_on_error=1:exitcode=78"; }
const char *__lsan_default_options() { return "print_suppressions=0:exitcode=79"; }
}

namespace vp {

// ------------------------------------------------------------------ globals
static Stats *g_stats;
static uint64_t g_epoch;
static std::vector<std::string> g_open_findings;
static volatile int64_t g_live;
static bool g_replay_verbose;

Stats *stats() { return g_stats; }
uint64_t case_epoch() { return g_epoch; }
int64_t live_allocations() { return g_live; }

static void hook_malloc(const volatile void *, size_t) { __atomic_add_fetch(&g_live, 1, __ATOMIC_RELAXED); }
static void hook_free(const volatile void *p) { if (p) __atomic_sub_fetch(&g_live, 1, __ATOMIC_RELAXED); }

bool finding_open(const char *id) {
  for (auto &s : g_open_findings) if (s == id) return true;
  return false;
}

bool external_mode() { static int v = -1; if (v < 0) v = getenv("VP_EXTERNAL") ? 1 : 0; return v; }

static void load_env() {
  const char *e = getenv("VP_EXCLUDE");
  if (!e) return;
  std::string s(e), cur;
  for (char c : s + ",") {
    if (c == ',') { if (!cur.empty()) g_open_findings.push_back(cur); cur.clear(); }
    else cur += c;
  }
}

void Ctx::count(const char *name, uint64_t n) {
  Stats *s = g_stats;
  if (!s) return;
  for (int i = 0; i < MaxLabels; i++) {
    if (!s->label[i].name[0]) {
      strncpy(s->label[i].name, name, LabelLen - 1);
    }
    if (!strncmp(s->label[i].name, name, LabelLen - 1)) {
      s->label[i].total += n;
      if (s->label[i].epoch != g_epoch + 1) { s->label[i].epoch = g_epoch + 1; s->label[i].cases++; }
      return;
    }
  }
}

bool Ctx::exclude(const char *id) {
  if (!finding_open(id)) return false;
  std::string l = std::string("excluded:") + id;
  count(l.c_str(), 1);
  if (g_stats) g_stats->excluded_total++;
  return true;
}

void Ctx::logf(const char *fmt, ...) {
  if (!verbose_) return;
  va_list ap;
  va_start(ap, fmt);
  vfprintf(stdout, fmt, ap);
  va_end(ap);
  fputc('\n', stdout);
}

std::string hex(const void *p, size_t n, size_t max) {
  static const char *d = "0123456789abcdef";
  std::string s;
  const uint8_t *b = (const uint8_t *)p;
  for (size_t i = 0; i < n && i < max; i++) { s += d[b[i] >> 4]; s += d[b[i] & 15]; }
  if (n > max) s += "..(" + std::to_string(n) + ")";
  return s;
}

void Ctx::loghex(const char *what, const void *p, size_t n) {
  if (!verbose_) return;
  printf("%s[%zu]=%s\n", what, n, hex(p, n, 96).c_str());
}

void Ctx::fail(const char *tag, const char *fmt, ...) {
  char buf[1000];
  va_list ap;
  va_start(ap, fmt);
  vsnprintf(buf, sizeof buf, fmt, ap);
  va_end(ap);
  throw Fail{tag, buf};
}

// ------------------------------------------------------------------ rng
struct Rng {
  uint64_t s;
  explicit Rng(uint64_t seed) : s(seed) {}
  uint64_t next() {
    uint64_t z = (s += 0x9e3779b97f4a7c15ull);
    z = (z ^ (z >> 30)) * 0xbf58476d1ce4e5b9ull;
    z = (z ^ (z >> 27)) * 0x94d049bb133111ebull;
    return z ^ (z >> 31);
  }
  uint64_t below(uint64_t n) { return n ? next() % n : 0; }
};

static const uint8_t kBoundary[] = {0, 0, 1, 1, 2, 3, 4, 7, 8, 0x1f, 0x20, 0x7f, 0x80, 0xdf, 0xe0, 0xfe, 0xff, 0xff};

static void gen_fresh(Rng &r, std::vector<uint8_t> &out, size_t maxsize) {
  size_t cls = r.below(10), size;
  if (cls < 2) size = r.below(17);
  else if (cls < 5) size = r.below(std::min<size_t>(maxsize, 96) + 1);
  else if (cls < 8) size = r.below(std::min<size_t>(maxsize, 512) + 1);
  else size = r.below(maxsize + 1);
  out.clear();
  out.reserve(size);
  int style = (int)r.below(4);  // 0 uniform, 1 mixed chunks, 2 low entropy, 3 boundary heavy
  while (out.size() < size) {
    size_t chunk = 1 + r.below(24);
    int mode = style == 0 ? 0 : style == 2 ? 1 + (int)r.below(2) : style == 3 ? 2 + (int)r.below(2) : (int)r.below(5);
    uint8_t rep = (uint8_t)r.next();
    for (size_t i = 0; i < chunk && out.size() < size; i++) {
      uint8_t b;
      switch (mode) {
        case 0: b = (uint8_t)r.next(); break;
        case 1: b = (uint8_t)r.below(4); break;
        case 2: b = kBoundary[r.below(sizeof kBoundary)]; break;
        case 3: b = r.below(3) ? (uint8_t)r.next() : kBoundary[r.below(sizeof kBoundary)]; break;
        default: b = rep; break;
      }
      out.push_back(b);
    }
  }
}

static void mutate(Rng &r, std::vector<uint8_t> &c, const std::vector<std::vector<uint8_t>> &pool, size_t maxsize) {
  int n = 1 + (int)r.below(4);
  for (int k = 0; k < n; k++) {
    switch (r.below(7)) {
      case 0: if (!c.empty()) c[r.below(c.size())] = (uint8_t)r.next(); break;
      case 1: if (!c.empty()) c[r.below(c.size())] = kBoundary[r.below(sizeof kBoundary)]; break;
      case 2: if (!c.empty()) { size_t p = r.below(c.size()), l = 1 + r.below(std::min<size_t>(c.size() - p, 16)); c.erase(c.begin() + p, c.begin() + p + l); } break;
      case 3: { size_t p = r.below(c.size() + 1), l = 1 + r.below(8); for (size_t i = 0; i < l; i++) c.insert(c.begin() + p, (uint8_t)r.next()); } break;
      case 4: if (!c.empty()) { size_t p = r.below(c.size()); c[p] = (uint8_t)(c[p] + (r.below(2) ? 1 : -1)); } break;
      case 5: if (!pool.empty()) {  // splice tail of another case
        const auto &o = pool[r.below(pool.size())];
        size_t p = r.below(c.size() + 1), q = r.below(o.size() + 1);
        c.resize(p);
        c.insert(c.end(), o.begin() + q, o.end());
      } break;
      default: if (!c.empty()) { size_t p = r.below(c.size()), l = 1 + r.below(std::min<size_t>(c.size() - p, 32)); std::vector<uint8_t> d(c.begin() + p, c.begin() + p + l); c.insert(c.begin() + p, d.begin(), d.end()); } break;
    }
  }
  if (c.size() > maxsize) c.resize(maxsize);
}

// ------------------------------------------------------------------ running one case
enum Kind { Pass = 0, Failed = 1, Crash = 2, Timeout = 3 };
struct Result {
  Kind kind = Pass;
  std::string tag, msg, err;
  uint64_t hash = 0;
  bool nontrivial = false;
};

static void on_prof(int) {
  static const char m[] = "VP-TIMEOUT: case exceeded its CPU budget\n";
  if (write(2, m, sizeof m - 1)) {}
  _exit(75);
}

static void arm_timer(unsigned secs) {
  struct itimerval it;
  memset(&it, 0, sizeof it);
  it.it_value.tv_sec = secs;
  setitimer(ITIMER_PROF, &it, 0);
}

// run in this process; throws nothing; fills Result for Pass/Failed
static Result run_here(const uint8_t *d, size_t n, bool verbose) {
  Target &t = target();
  Result r;
  Ctx ctx(d, n, verbose);
  int64_t before = g_live;
  try {
    alloc_reset();
    if (t.reset) t.reset();
    t.run(ctx);
  } catch (Fail &f) {
    r.kind = Failed;
    r.tag = f.tag;
    r.msg = f.msg;
  }
  r.hash = ctx.hash();
  r.nontrivial = ctx.is_nontrivial();
  if (r.kind == Pass && t.leak_check && g_live > before && __lsan_do_recoverable_leak_check) {
    if (__lsan_do_recoverable_leak_check()) {
      r.kind = Failed;
      r.tag = "leak";
      r.msg = "LeakSanitizer reported unreachable allocations after the case released everything";
    }
  }
  return r;
}

static std::string slurp_fd(int fd) {
  std::string s;
  char buf[65536];
  lseek(fd, 0, SEEK_SET);
  ssize_t k;
  while ((k = read(fd, buf, sizeof buf)) > 0) { s.append(buf, k); if (s.size() > (4u << 20)) break; }
  return s;
}

static std::string first_repo_func(const std::string &err, size_t from = 0) {
  // "    #3 0x... in func /path/to/repo/file.c:12:3"
  size_t p = from;
  while ((p = err.find(" in ", p)) != std::string::npos) {
    size_t e = err.find('\n', p);
    std::string line = err.substr(p + 4, e == std::string::npos ? std::string::npos : e - p - 4);
    p += 4;
    size_t sp = line.find(' ');
    if (sp == std::string::npos) continue;
    std::string fn = line.substr(0, sp), where = line.substr(sp + 1);
    if (where.find("/mptcore/") != std::string::npos || where.find("/mptio/") != std::string::npos ||
        where.find("/mptplot/") != std::string::npos || where.find("/mpt++/") != std::string::npos) {
      // strip template/arg noise
      size_t par = fn.find('(');
      if (par != std::string::npos) fn.resize(par);
      return fn;
    }
  }
  return "";
}

static std::string classify(const std::string &err, int status) {
  size_t p;
  if (err.find("VP-TIMEOUT") != std::string::npos) return "timeout";
  if ((p = err.find("ERROR: AddressSanitizer: ")) != std::string::npos) {
    size_t s = p + strlen("ERROR: AddressSanitizer: ");
    size_t e = err.find_first_of(" \n", s);
    std::string kind = err.substr(s, e - s);
    std::string fn = first_repo_func(err, p);
    return "asan:" + kind + "@" + (fn.empty() ? "?" : fn);
  }
  if ((p = err.find("runtime error: ")) != std::string::npos) {
    size_t s = p + strlen("runtime error: ");
    size_t e = err.find('\n', s);
    std::string m = err.substr(s, std::min<size_t>(e - s, 48));
    std::string clean;
    for (char c : m) if (!(c >= '0' && c <= '9') && c != '-') clean += c == ' ' ? '_' : c;
    std::string fn = first_repo_func(err, p);
    return "ubsan:" + clean + "@" + (fn.empty() ? "?" : fn);
  }
  if ((p = err.find("ERROR: LeakSanitizer")) != std::string::npos) {
    std::string fn = first_repo_func(err, p);
    return "leak@" + (fn.empty() ? "?" : fn);
  }
  if (WIFSIGNALED(status)) return "signal:" + std::to_string(WTERMSIG(status));
  return "exit:" + std::to_string(WEXITSTATUS(status));
}

// run the case in a forked child with stderr captured
static Result run_child(const uint8_t *d, size_t n, bool verbose, bool keep_stats) {
  Result r;
  int efd = memfd_create("vperr", 0);
  fflush(stdout);
  Stats saved;
  if (!keep_stats && g_stats) saved = *g_stats;
  if (g_stats) { g_stats->cur_done = 0; g_stats->cur_tag[0] = 0; g_stats->cur_msg[0] = 0; }
  pid_t pid = fork();
  if (pid == 0) {
    dup2(efd, 2);
    unsigned cpu = target().cpu_seconds ? target().cpu_seconds : 20;
    if (getenv("VP_CPU_SECONDS")) cpu = atoi(getenv("VP_CPU_SECONDS"));
    signal(SIGPROF, on_prof);
    arm_timer(cpu);
    alarm(600);
    Result c = run_here(d, n, verbose);
    if (g_stats) {
      g_stats->cur_hash = c.hash;
      g_stats->cur_nontrivial = c.nontrivial;
      snprintf(g_stats->cur_tag, sizeof g_stats->cur_tag, "%s", c.tag.c_str());
      snprintf(g_stats->cur_msg, sizeof g_stats->cur_msg, "%s", c.msg.c_str());
      g_stats->cur_done = 1;
    }
    fflush(stdout);
    _exit(c.kind == Pass ? 0 : 1);
  }
  int status = 0;
  while (waitpid(pid, &status, 0) < 0 && errno == EINTR) {}
  r.err = slurp_fd(efd);
  close(efd);
  if (g_stats && g_stats->cur_done) {
    r.hash = g_stats->cur_hash;
    r.nontrivial = g_stats->cur_nontrivial;
    if (WIFEXITED(status) && WEXITSTATUS(status) == 0) r.kind = Pass;
    else { r.kind = Failed; r.tag = g_stats->cur_tag; r.msg = g_stats->cur_msg; }
    if (r.kind == Failed && r.tag == "leak") {
      std::string fn = first_repo_func(r.err, r.err.find("ERROR: LeakSanitizer"));
      if (!fn.empty()) r.tag = "leak@" + fn;
      r.msg += "\n" + r.err.substr(0, 5000);
    }
  } else {
    r.tag = classify(r.err, status);
    r.kind = r.tag == "timeout" ? Timeout : Crash;
    if (WIFSIGNALED(status) && WTERMSIG(status) == SIGALRM) { r.kind = Timeout; r.tag = "timeout-wall"; }
    size_t cut = r.err.size() > 6000 ? 6000 : r.err.size();
    r.msg = r.err.substr(0, cut);
  }
  if (!keep_stats && g_stats) *g_stats = saved;
  return r;
}

// ------------------------------------------------------------------ files
static bool read_file(const std::string &p, std::vector<uint8_t> &out) {
  FILE *f = fopen(p.c_str(), "rb");
  if (!f) return false;
  out.clear();
  uint8_t buf[65536];
  size_t k;
  while ((k = fread(buf, 1, sizeof buf, f)) > 0) out.insert(out.end(), buf, buf + k);
  fclose(f);
  return true;
}
static void write_file(const std::string &p, const void *d, size_t n) {
  FILE *f = fopen(p.c_str(), "wb");
  if (!f) { perror(p.c_str()); exit(2); }
  if (n) fwrite(d, 1, n, f);
  fclose(f);
}

static void *map_file(const std::string &p, size_t size) {
  int fd = open(p.c_str(), O_RDWR | O_CREAT, 0644);
  if (fd < 0) { perror(p.c_str()); exit(2); }
  struct stat st;
  fstat(fd, &st);
  if ((size_t)st.st_size < size && ftruncate(fd, size) < 0) { perror("ftruncate"); exit(2); }
  void *m = mmap(0, size, PROT_READ | PROT_WRITE, MAP_SHARED, fd, 0);
  close(fd);
  if (m == MAP_FAILED) { perror("mmap"); exit(2); }
  return m;
}

struct Slot {
  uint64_t index;
  uint32_t len;
  uint32_t running;
  uint8_t data[1];
};

// ------------------------------------------------------------------ worker
// index space of a worker: first its share of every enumerated sub-space, then `count` random cases
static int worker_main(int argc, char **argv) {
  if (argc < 9) { fprintf(stderr, "worker args\n"); return 2; }
  uint64_t seed = strtoull(argv[2], 0, 0);
  unsigned w = atoi(argv[3]), J = atoi(argv[4]);
  uint64_t start = strtoull(argv[5], 0, 0), count = strtoull(argv[6], 0, 0);
  int tier = atoi(argv[7]);
  std::string out = argv[8];
  unsigned maxfail = argc > 9 ? atoi(argv[9]) : 1;
  Target &t = target();
  size_t maxsize = t.max_size[tier];
  std::string base = out + "/w" + std::to_string(w);
  g_stats = (Stats *)map_file(base + ".stats", sizeof(Stats));
  Slot *slot = (Slot *)map_file(base + ".cur", sizeof(Slot) + maxsize + 4096 + (1 << 16));
  FILE *hf = fopen((base + ".hashes").c_str(), "ab");
  if (t.leak_check && __sanitizer_install_malloc_and_free_hooks) __sanitizer_install_malloc_and_free_hooks(hook_malloc, hook_free);

  // enumerated part
  std::vector<uint64_t> ecount;
  uint64_t etotal = 0;
  for (auto &e : t.enums) {
    uint64_t c = e.count(tier), mine = c > w ? (c - w + J - 1) / J : 0;
    ecount.push_back(mine);
    etotal += mine;
  }
  signal(SIGPROF, on_prof);
  unsigned cpu = t.cpu_seconds ? t.cpu_seconds : 20;
  std::vector<std::vector<uint8_t>> pool;
  std::vector<uint8_t> c;
  unsigned fails = 0, samples = 0;
  uint64_t total = etotal + count;
  for (uint64_t k = start; k < total; k++) {
    bool enumerated = k < etotal;
    if (enumerated) {
      uint64_t rem = k;
      size_t ei = 0;
      while (rem >= ecount[ei]) { rem -= ecount[ei]; ++ei; }
      t.enums[ei].make(w + rem * J, tier, c);
    } else {
      uint64_t i = k - etotal;
      Rng r(seed * 0x9e3779b97f4a7c15ull + ((uint64_t)w << 40) + i * 2654435761ull + 12345);
      // size ramp: first cases are small
      size_t ms = maxsize;
      if (i < 200) ms = std::min<size_t>(maxsize, 16 + i * 2);
      if (!pool.empty() && r.below(100) < 25) {
        c = pool[r.below(pool.size())];
        mutate(r, c, pool, ms);
      } else {
        gen_fresh(r, c, ms);
      }
    }
    slot->index = k;
    slot->len = (uint32_t)c.size();
    memcpy(slot->data, c.data(), c.size());
    slot->running = 1;
    g_epoch = g_stats->cases;
    Result r;
    if (t.fork_per_case) {
      r = run_child(c.data(), c.size(), false, true);
    } else {
      arm_timer(cpu);
      r = run_here(c.data(), c.size(), false);
      arm_timer(0);
    }
    slot->running = 0;
    g_stats->cases++;
    if (r.kind == Pass) {
      if (r.nontrivial) {
        g_stats->nontrivial++;
        fwrite(&r.hash, 8, 1, hf);
        if ((enumerated && !(samples & 1)) || (!enumerated && c.size() > 8 && (samples >> 1) < 2)) {
          unsigned slot_no = enumerated ? 0 : 1 + (samples >> 1);
          write_file(base + ".sample" + std::to_string(slot_no), c.data(), c.size());
          samples += enumerated ? 1 : 2;
        }
        if (!enumerated) {
          if (pool.size() < 256) pool.push_back(c);
          else pool[r.hash % 256] = c;
        }
      }
    } else {
      std::string fb = out + "/fail-w" + std::to_string(w) + "-" + std::to_string(k);
      write_file(fb + ".bin", c.data(), c.size());
      std::string meta = r.tag + "\n" + r.msg + "\n";
      write_file(fb + ".tag", meta.data(), meta.size());
      fails++;
      // state after a failure is not trusted: leave, the driver restarts at k+1
      fclose(hf);
      fflush(stdout);
      (void)maxfail;
      _exit(3);
    }
  }
  fclose(hf);
  fflush(stdout);
  _exit(0);
}

// ------------------------------------------------------------------ replay
static int replay_main(int argc, char **argv) {
  if (argc < 3) return 2;
  std::vector<uint8_t> c;
  if (!read_file(argv[2], c)) { perror(argv[2]); return 2; }
  bool verbose = !(argc > 3 && !strcmp(argv[3], "--quiet"));
  g_stats = (Stats *)mmap(0, sizeof(Stats), PROT_READ | PROT_WRITE, MAP_SHARED | MAP_ANONYMOUS, -1, 0);
  if (target().leak_check && __sanitizer_install_malloc_and_free_hooks) __sanitizer_install_malloc_and_free_hooks(hook_malloc, hook_free);
  g_replay_verbose = verbose;
  setvbuf(stdout, 0, _IOLBF, 1 << 12);
  Result r = run_child(c.data(), c.size(), verbose, true);
  if (r.kind == Pass) {
    printf("PASS nontrivial=%d hash=%016llx\n", (int)r.nontrivial, (unsigned long long)r.hash);
    for (int i = 0; i < MaxLabels && g_stats->label[i].name[0]; i++) printf("LABEL %s %llu\n", g_stats->label[i].name, (unsigned long long)g_stats->label[i].total);
    return 0;
  }
  printf("FAIL %s\n", r.tag.c_str());
  printf("%s\n", r.msg.c_str());
  return 1;
}

// ------------------------------------------------------------------ shrink
static int shrink_main(int argc, char **argv) {
  if (argc < 5) return 2;
  std::vector<uint8_t> best;
  if (!read_file(argv[2], best)) { perror(argv[2]); return 2; }
  std::string want = argv[4];
  unsigned budget = argc > 5 ? atoi(argv[5]) : 4000;
  time_t deadline = time(0) + (argc > 6 ? atoi(argv[6]) : 300);
  g_stats = (Stats *)mmap(0, sizeof(Stats), PROT_READ | PROT_WRITE, MAP_SHARED | MAP_ANONYMOUS, -1, 0);
  if (target().leak_check && __sanitizer_install_malloc_and_free_hooks) __sanitizer_install_malloc_and_free_hooks(hook_malloc, hook_free);
  unsigned tries = 0;
  auto fails = [&](const std::vector<uint8_t> &c) {
    ++tries;
    if (time(0) > deadline) { tries = budget; return false; }
    Result r = run_child(c.data(), c.size(), false, false);
    return r.kind != Pass && r.tag == want;
  };
  if (!fails(best)) { fprintf(stderr, "shrink: input does not fail with class %s\n", want.c_str()); return 3; }
  bool progress = true;
  while (progress && tries < budget) {
    progress = false;
    // drop tail
    for (size_t cut = best.size() / 2; cut >= 1 && tries < budget; cut /= 2) {
      while (best.size() >= cut && tries < budget) {
        std::vector<uint8_t> c(best.begin(), best.end() - cut);
        if (fails(c)) { best.swap(c); progress = true; } else break;
      }
    }
    // delete chunks
    for (size_t len = std::max<size_t>(best.size() / 2, 1); len >= 1 && tries < budget; len /= 2) {
      for (size_t p = 0; p + len <= best.size() && tries < budget;) {
        std::vector<uint8_t> c(best);
        c.erase(c.begin() + p, c.begin() + p + len);
        if (fails(c)) { best.swap(c); progress = true; } else p += len;
      }
      if (len == 1) break;
    }
    // zero / lower bytes
    for (size_t p = 0; p < best.size() && tries < budget; p++) {
      if (!best[p]) continue;
      std::vector<uint8_t> c(best);
      c[p] = 0;
      if (fails(c)) { best.swap(c); progress = true; continue; }
      uint8_t lo = 0, hi = best[p];  // smallest failing value by bisection (heuristic)
      while (hi - lo > 1 && tries < budget) {
        uint8_t mid = lo + (hi - lo) / 2;
        c[p] = mid;
        if (fails(c)) hi = mid; else lo = mid;
      }
      if (hi != best[p]) { c[p] = hi; if (fails(c)) { best.swap(c); progress = true; } }
    }
  }
  write_file(argv[3], best.data(), best.size());
  printf("SHRUNK %zu bytes after %u runs\n", best.size(), tries);
  return 0;
}

// ------------------------------------------------------------------ merge (stats + distinct hashes)
static int merge_main(int argc, char **argv) {
  if (argc < 4) return 2;
  std::string out = argv[2];
  unsigned J = atoi(argv[3]);
  std::vector<uint64_t> hs;
  std::map<std::string, std::pair<uint64_t, uint64_t>> labels;
  uint64_t cases = 0, nontrivial = 0, excluded = 0;
  for (unsigned w = 0; w < J; w++) {
    std::string base = out + "/w" + std::to_string(w);
    std::vector<uint8_t> b;
    if (read_file(base + ".hashes", b)) {
      size_t n = b.size() / 8;
      size_t old = hs.size();
      hs.resize(old + n);
      if (n) memcpy(hs.data() + old, b.data(), n * 8);
    }
    if (read_file(base + ".stats", b) && b.size() >= sizeof(Stats)) {
      Stats *s = (Stats *)b.data();
      cases += s->cases;
      nontrivial += s->nontrivial;
      excluded += s->excluded_total;
      for (int i = 0; i < MaxLabels && s->label[i].name[0]; i++) {
        auto &l = labels[s->label[i].name];
        l.first += s->label[i].cases;
        l.second += s->label[i].total;
      }
    }
  }
  std::sort(hs.begin(), hs.end());
  size_t distinct = std::unique(hs.begin(), hs.end()) - hs.begin();
  printf("{\"cases\": %llu, \"nontrivial\": %llu, \"distinct_nontrivial\": %zu, \"excluded\": %llu, \"labels\": {",
         (unsigned long long)cases, (unsigned long long)nontrivial, distinct, (unsigned long long)excluded);
  bool first = true;
  for (auto &l : labels) {
    printf("%s\"%s\": [%llu, %llu]", first ? "" : ", ", l.first.c_str(), (unsigned long long)l.second.first, (unsigned long long)l.second.second);
    first = false;
  }
  printf("}}\n");
  return 0;
}

// run a file of length-prefixed cases (u32 little endian + bytes) produced by an external generator
static int batch_main(int argc, char **argv) {
  if (argc < 4) return 2;
  std::vector<uint8_t> all;
  if (!read_file(argv[2], all)) { perror(argv[2]); return 2; }
  std::string out = argv[3];
  g_stats = (Stats *)mmap(0, sizeof(Stats), PROT_READ | PROT_WRITE, MAP_SHARED | MAP_ANONYMOUS, -1, 0);
  size_t p = 0, n = 0, failed = 0, nt = 0;
  while (p + 4 <= all.size()) {
    uint32_t len;
    memcpy(&len, &all[p], 4);
    p += 4;
    if (p + len > all.size()) break;
    g_epoch = g_stats->cases++;
    Result r = run_child(&all[p], len, false, true);
    if (r.kind != Pass) {
      if (failed < 5) {
        std::string fb = out + "/fail-batch-" + std::to_string(n);
        write_file(fb + ".bin", &all[p], len);
        std::string meta = r.tag + "\n" + r.msg + "\n";
        write_file(fb + ".tag", meta.data(), meta.size());
      }
      failed++;
    } else if (r.nontrivial) nt++;
    p += len;
    n++;
  }
  printf("{\"cases\": %zu, \"failed\": %zu, \"nontrivial\": %zu}\n", n, failed, nt);
  return 0;
}

static int info_main(int argc, char **argv) {
  int tier = argc > 2 ? atoi(argv[2]) : 0;
  Target &t = target();
  printf("{\"property\": \"%s\", \"fork_per_case\": %s, \"leak_check\": %s, \"max_size\": %zu, \"enums\": [",
         t.property, t.fork_per_case ? "true" : "false", t.leak_check ? "true" : "false", t.max_size[tier]);
  bool first = true;
  for (auto &e : t.enums) {
    printf("%s{\"name\": \"%s\", \"size\": %llu}", first ? "" : ", ", e.name, (unsigned long long)e.count(tier));
    first = false;
  }
  printf("], \"rule\": \"");
  for (const char *p = t.rule; *p; p++) {
    if (*p == '"' || *p == '\\') putchar('\\');
    if (*p == '\n') { printf("\\n"); continue; }
    putchar(*p);
  }
  printf("\"}\n");
  return 0;
}

}  // namespace vp

int main(int argc, char **argv) {
  using namespace vp;
  setvbuf(stdout, 0, _IOFBF, 1 << 16);
  load_env();
  if (argc < 2) { fprintf(stderr, "usage: %s --worker|--replay|--shrink|--merge|--info ...\n", argv[0]); return 2; }
  std::string m = argv[1];
  if (m == "--worker") return worker_main(argc, argv);
  if (m == "--replay") return replay_main(argc, argv);
  if (m == "--shrink") return shrink_main(argc, argv);
  if (m == "--merge") return merge_main(argc, argv);
  if (m == "--info") return info_main(argc, argv);
  if (m == "--batch") return batch_main(argc, argv);
  fprintf(stderr, "unknown mode %s\n", m.c_str());
  return 2;
}
