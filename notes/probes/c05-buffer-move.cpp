// probe for notes/patches/C05-14 and C04-31: clang++ -std=gnu++11 -g -fsanitize=address -I$REPO/mptcore -I$REPO/mpt++ -I$REPO move.cpp -L<instrumented lib dir> -lmpt++ -lmptio -lmptplot -lmptcore; prints PASS on the repaired tree
// probe: buffer::move between buffers of different content types / with a shared source; array::set(const value &)
#include <cstdio>
#include <cstring>
#include "array.h"
using namespace mpt;
static int liveA = 0, liveB = 0, badA = 0;
struct A { uint64_t magic; A() : magic(0xA) { ++liveA; } A(const A &) : magic(0xA) { ++liveA; } ~A() { if (magic != 0xA) ++badA; --liveA; } };
struct B { uint64_t magic, more; B() : magic(0xB), more(0) { ++liveB; } B(const B &) : magic(0xB), more(0) { ++liveB; } ~B() { --liveB; } };
template <typename T> struct open_array : typed_array<T> { content<T> *buf() { this->detach(); return this->_ref.instance(); } content<T> *raw() { return this->_ref.instance(); } };
int main() {
	int fail = 0;
	{
		open_array<A> a; open_array<B> b;
		a.insert(0, A()); b.insert(0, B()); b.insert(1, B());
		bool ok = a.buf()->move(*b.buf());
		printf("move(B elements -> buffer of A) returns %d; a: %ld element(s), b: %ld\n", ok, a.length(), b.length());
		if (ok) { puts("FAIL: elements of another type were moved into the buffer"); fail = 1; }
	}
	printf("after release: live A %d, live B %d, A destructor on foreign memory %d\n", liveA, liveB, badA);
	if (liveA || liveB || badA) { puts("FAIL: element accounting broken"); fail = 1; }
	{
		open_array<A> a, src, other;
		src.insert(0, A()); src.insert(1, A());
		other = src;                      // second holder of the source buffer
		a.insert(0, A());
		bool ok = a.buf()->move(*src.raw());
		printf("move(shared source) returns %d; other holder reads %ld element(s)\n", ok, other.length());
		if (other.length() != 2) { puts("FAIL: move emptied a shared source for its other holder"); fail = 1; }
	}
	{
		array arr;
		const char *txt = "text";
		value v; v.set('s', &txt);
		int r = arr.set(v);
		printf("array::set(value 's' \"text\") returns %d, length %zu\n", r, arr.data() ? arr.data()->length() : 0);
		if (r < 0) { puts("NOTE: array::set(const value &) refuses every value (swapped mpt_buffer_set arguments)"); }
	}
	puts(fail ? "FAIL" : "PASS");
	return fail;
}
