/* probe for notes/patches/C04-28: clang -g -fsanitize=address -I$REPO/mptcore -I$REPO map.c -L<instrumented lib dir> -lmptcore; expected on the repaired tree: detach grows, shared no-copy refused, append ok */
#include <stdio.h>
#include <string.h>
#include "array.h"
int main(void) {
	MPT_STRUCT(array) a = MPT_ARRAY_INIT, b = MPT_ARRAY_INIT;
	MPT_STRUCT(buffer) *m = _mpt_buffer_map(16, MPT_ENUM(BufferNoCopy)), *d;
	static char big[6000];
	if (!m) { puts("map refused"); return 2; }
	printf("mapped size %zu flags %x\n", m->_size, m->_vptr->get_flags(m));
	/* unshared: ask for more than it has */
	d = m->_vptr->detach(m, m->_size + 1000);
	printf("detach(size+1000) -> %s, size %zu\n", d == m ? "same buffer" : d ? "new buffer" : "refused", d ? d->_size : 0);
	a._buf = d ? d : m;
	memset(big, 'x', sizeof big);
	mpt_array_append(&a, 100, big);
	/* shared no-copy buffer with data */
	mpt_array_clone(&b, &a);
	d = a._buf->_vptr->detach(a._buf, 10);
	printf("detach of shared no-copy buffer with %zu bytes -> %s\n", a._buf->_used, d ? (d == a._buf ? "same" : "copied although BufferNoCopy") : "refused");
	if (d) a._buf = d;
	mpt_array_clone(&b, 0);
	/* append beyond capacity of unshared mapped buffer */
	fflush(stdout);
	if (!mpt_array_append(&a, sizeof big, big)) puts("append refused"); else printf("append ok used %zu size %zu\n", a._buf->_used, a._buf->_size);
	mpt_array_clone(&a, 0);
	return 0;
}
