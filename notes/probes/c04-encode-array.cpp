// probe for notes/patches/C04-29 and C04-30: clang++ -std=gnu++11 -g -fsanitize=address -I$REPO/mptcore -I$REPO/mpt++ -I$REPO enc.cpp -L<instrumented lib dir> -lmpt++ -lmptio -lmptplot -lmptcore; prints PASS on the repaired tree
#include <cstdio>
#include <cstring>
#include "array.h"
using namespace mpt;
struct E : encode_array { using encode_array::_d; using encode_array::_state; };
int main() {
	int fail = 0;
	{ // prepare() must keep existing data
		E e;
		e.push(5, "hello");   // no encoder: raw append
		span<const uint8_t> d = e.data();
		printf("before prepare: %zu bytes '%.*s'\n", e._d.length(), (int) e._d.length(), (const char *) e._d.base());
		bool ok = e.prepare(100);
		printf("prepare(100) -> %d, %zu bytes, first byte %d\n", ok, e._d.length(), e._d.length() ? ((const char *) e._d.base())[0] : -1);
		if (e._d.length() != 5 || memcmp(e._d.base(), "hello", 5)) { puts("FAIL: prepare() destroyed the existing data"); fail = 1; }
	}
	{ // shift(0) on a buffer shared with a copy
		E e;
		e.push(8, "abcdefgh");
		e._state.done = 3; e._state.scratch = 0;      // as if 5 bytes in front were consumed already: 3 finished bytes at the end
		array copy(e._d);       // second handle on the same buffer
		printf("done %zu scratch %zu length %zu shared %d\n", e._state.done, e._state.scratch, e._d.length(), (int) e._d.shared()); bool ok = e.shift(0); printf("after: length %zu data %.3s\n", e._d.length(), (const char *) e._d.base());
		printf("shift(0) -> %d; copy reads %zu bytes '%.*s'\n", ok, copy.length(), (int) copy.length(), (const char *) copy.base());
		if (copy.length() != 8 || memcmp(copy.base(), "abcdefgh", 8)) { puts("FAIL: shift(0) changed what another handle on the buffer reads"); fail = 1; }
	}
	puts(fail ? "FAIL" : "PASS");
	return fail;
}
